#!/bin/bash
# usage: tools/verify_seed.sh <worktree> <change.diff> <demo.diff>
# Confirms in a scratch worktree that (1) the change alone keeps the suite green, (2) the
# demonstration alone passes, (3) change + demonstration fails.
set -u
wt="$1"; ch="$2"; demo="$3"
cd "$wt" || exit 2
t() { CARGO_NET_OFFLINE=true cargo test --workspace --no-fail-fast --offline >/tmp/.vs.$$ 2>&1; rc=$?; f=$(grep -cE "^test .* FAILED|^error" /tmp/.vs.$$); p=$(grep -E "^test result" /tmp/.vs.$$ | awk '{s+=$4} END {print s}'); rm -f /tmp/.vs.$$; echo "rc=$rc passed=$p failed_lines=$f"; return $rc; }
clean() { git checkout -q -- . ; git clean -fdq -e out; }
clean
git apply "$ch" || { echo "change does not apply"; exit 2; }
r1=$(t); c1=$?
clean
git apply "$demo" || { echo "demo does not apply"; exit 2; }
r2=$(t); c2=$?
git apply "$ch" || { echo "change does not apply on demo"; clean; exit 2; }
r3=$(t); c3=$?
clean
echo "change-only: $r1 | demo-only: $r2 | both: $r3"
if [ $c1 -eq 0 ] && [ $c2 -eq 0 ] && [ $c3 -ne 0 ]; then echo "SEED-OK"; else echo "SEED-BAD"; fi
