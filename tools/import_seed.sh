#!/bin/bash
# usage: tools/import_seed.sh <out-dir> <a|b> <seed-id> <round> "<verify result>"
# Copies a sub-agent's change + demonstration into seeded/<seed-id>/ with a meta.json skeleton.
set -eu
ROOT="$(cd "$(dirname "$0")/.." && pwd)"
out="$1"; v="$2"; id="$3"; round="$4"; res="$5"
d="$ROOT/seeded/$id"; mkdir -p "$d"
cp "$out/$v.diff" "$d/patch.diff"; cp "$out/$v.demo.diff" "$d/demo.diff"
[ -f "$out/$v.README.md" ] && cp "$out/$v.README.md" "$d/README.md"
python3 - "$d" "$id" "$round" "$res" <<'PY'
import json,sys
d,id,rnd,res=sys.argv[1:5]
json.dump({"id":id,"breaks_property":id[:3],"round":int(rnd),
 "source":"independent sub-agent given only the property text (JSON line) and a scratch worktree; asked for plausible maintainer-style changes needing a specific conjunction, history, fault or unusual input",
 "needs_to_manifest":"see README.md",
 "confirmed":{"how":"tools/verify_seed.sh in a scratch worktree: `cargo test --workspace --no-fail-fast --offline` passes with the change alone, passes with the demonstration alone, fails with both","result":res},
 "checks_run":"tools/try_mutant.sh (git -C /repo apply patch.diff; ./check <ID> quick; git -C /repo checkout -- .)",
 "caught_by":[],"note":""},open(d+"/meta.json","w"),indent=1)
PY
