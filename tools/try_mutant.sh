#!/bin/bash
# usage: tools/try_mutant.sh <patch.diff> <ID> [<ID> ...]
# Applies a seeded change to /repo, runs the quick checks of the given properties, and undoes the
# change straight afterwards. Prints one line per check: CAUGHT / MISSED / HARNESS-ERROR.
set -u
ROOT="$(cd "$(dirname "$0")/.." && pwd)"
patch="$1"; shift
if ! git -C /repo diff --quiet; then echo "/repo has uncommitted changes" >&2; exit 2; fi
if ! git -C /repo apply "$patch"; then echo "patch does not apply" >&2; exit 2; fi
trap 'git -C /repo checkout -- . ; git -C /repo clean -fdq' EXIT INT TERM
for id in "$@"; do
    out=$(VERIF_EVIDENCE_DIR=/dev/shm/cbmut/evidence VERIF_REPLAY_DIR=/dev/shm/cbmut/replays "$ROOT/check" "$id" "${TIER:-quick}" 2>&1); rc=$?
    sigs=$(echo "$out" | grep -E "^violation of" | sed -E 's/ — .*//' | sort -u | tr '\n' ';' | cut -c1-300)
    case $rc in
        1) echo "CAUGHT  $id  $sigs" ;;
        0) echo "MISSED  $id" ;;
        *) echo "HARNESS-ERROR $id: $(echo "$out" | grep -E 'HARNESS-ERROR|error' | head -3 | tr '\n' ' ' | cut -c1-300)" ;;
    esac
done
