#!/bin/bash
# usage: tools/regress_seeds.sh [pattern]   — re-run every seeded change against the quick check of the
# property it was written for (and report CAUGHT / MISSED), then every benign patch against the
# checks listed for it (expect MISSED = quiet). Applies patches to /repo one at a time.
ROOT="$(cd "$(dirname "$0")/.." && pwd)"
pat="${1:-}"
for d in "$ROOT"/seeded/C*; do
    id=$(basename "$d"); [[ -n "$pat" && "$id" != *$pat* ]] && continue
    prop=${id:0:3}
    printf "%-8s " "$id"; timeout 3000 "$ROOT/tools/try_mutant.sh" "$d/patch.diff" "$prop" 2>&1 | tail -1 | cut -c1-200
done
while read -r name checks; do
    [[ -n "$pat" && "$name" != *$pat* ]] && continue
    for c in $checks; do printf "%-24s " "$name"; timeout 3000 "$ROOT/tools/try_mutant.sh" "$ROOT/seeded/benign/$name.diff" "$c" 2>&1 | tail -1 | cut -c1-120; done
done <<'LIST'
b1_seqcst_everywhere C02 C03 C04 C11 C18
b2_retry_cap_1e7 C18 C02
b3_blur_1ms C14 C05 C01
b4_integer_growth C05 C14 C01 C06
b6_poll_500ms C08 C13 C15 C12 C01
b8_extra_version_load C02 C03 C18 C04
b10_version_release C04 C02 C11
b11_requery_once C08 C12 C13 C15 C01 C09 C10
b12_now_retries_breach C12 C14 C05 C06 C17 C01
b13_shortcut_not_always_taken C18 C02 C03 C11
LIST
