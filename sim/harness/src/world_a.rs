//! World A — the shared-memory segment protocol (DESIGN.md §5).
//!
//! Real `ShmWriter::{new, wipe, write}` incarnations (killed, restarted) against real
//! `ShmReader::{new, snapshot}` readers on one tmpfs file, under the seeded scheduler and the
//! release/acquire memory model. Oracles: C02 C03 C04 C11 C16 C17(layout) C18.

use crate::util::*;
use clock_bound_shm::{ShmError, ShmReader, ShmWrite, ShmWriter};
use serde_json::{json, Value};
use std::ffi::CString;
use std::path::{Path, PathBuf};
use std::sync::{Arc, Mutex};
use verif_rt::mem::{LOC_GEN, LOC_VERSION};
use verif_rt::{EngView, EvKind, Event, Exit, FaultClass, FaultSpec, Observer};

pub const ROLE_HOST: u8 = 0;
pub const ROLE_WRITER: u8 = 1;
pub const ROLE_READER: u8 = 2;

/// value stored in every field of publication k (k = 0 is the record left by an "earlier daemon")
pub const VBASE: i64 = 1000;

/// C18: "a bounded amount of work". The property fixes no number; the code's present worst case
/// is 10^6 retries x 9 accesses. The oracle's bound is deliberately an order of magnitude above
/// that, so that e.g. a retry cap of 10^7 is not reported, while a call that never ends is.
pub const MAX_ACCESSES_PER_CALL: u64 = 100_000_000;

#[derive(Clone, Debug, PartialEq)]
pub enum Corrupt {
    None,
    /// rewrite the file as a valid segment with this generation and the record of index 0
    SetValid { gen: u16 },
    Truncate { len: u32 },
    /// field: 0 magic0, 1 magic1, 2 segsize, 3 version, 4 generation
    SetField { field: u8, value: u32 },
    Random { len: u32, seed: u32 },
    Dir,
    Delete,
    /// header only (16 bytes) with the given generation, version 1
    HeaderOnly { gen: u16 },
    /// a file of `len` bytes with exactly this header (record of index 0 as far as it fits, zero tail)
    Header { m0: u32, m1: u32, segsize: u32, version: u16, gen: u16, len: u32 },
}

#[derive(Clone, Debug)]
pub struct IncCfg {
    pub writes: u32,
    pub kill_at: Option<u32>,
    pub io_err: Option<(u32, u32)>,
    pub corrupt_before: Corrupt,
    pub gap_ns: i64,
    pub write_gap_ns: i64,
    /// the corruption is applied while the first client is in the middle of a call (only
    /// termination of client calls is judged in such a run)
    pub under_reader: bool,
    /// start this incarnation only once the first client has completed this many calls
    pub wait_calls: u32,
}

#[derive(Clone, Debug)]
pub struct CallCfg {
    pub gap_ns: i64,
    pub sync_before: bool,
}

#[derive(Clone, Debug)]
pub struct ReaderCfg {
    pub start_ns: i64,
    pub retry_ns: i64,
    pub max_open_tries: u32,
    pub calls: Vec<CallCfg>,
    /// sleep through this many further publications between call 1 and call 2 (long sleeper)
    pub sleep_pubs: u32,
    /// which API performs probe opens: 0 none, 1 all three APIs compared on every attempt
    pub probe_apis: bool,
    /// open a fresh reader for every call and drop it afterwards (corruption profile)
    pub reopen_each_call: bool,
    /// long sleeper: publications the writer makes back-to-back before its first pause (the
    /// reader's first call races with them when > 1)
    pub burst: u32,
    /// extra back-to-back calls right after the first one (long histories of one client)
    pub hammer: u32,
}

#[derive(Clone, Debug)]
pub struct ACfg {
    pub weak: bool,
    pub stale_ppm: u32,
    /// 0 = PCT scheduler with `pct_depth`
    pub switch_ppm: u32,
    pub pct_depth: u32,
    pub field_perm: bool,
    pub init: Corrupt,
    pub incs: Vec<IncCfg>,
    pub readers: Vec<ReaderCfg>,
    pub max_steps: u64,
    pub hash_seed: u64,
    /// non-empty: ping-pong scheduler with these quanta (thread 0 = writer host, 1.. = readers)
    pub pingpong: Vec<u32>,
    /// percentage of writes that republish the previous record's content (a real daemon publishes
    /// identical records while nothing changes, e.g. during an outage)
    pub repeat_pct: u32,
    /// non-empty: scripted scheduling prefix (thread index, number of scheduling points)
    pub script: Vec<(usize, u32)>,
    /// directed preemptions (thread, store?, location, nth access, thread to run, for how many points)
    pub preempts: Vec<(usize, bool, u8, u32, usize, u32)>,
    /// index of the first record handed to write()
    pub first_k: i64,
}

// ------------------------------------------------------------------------------------------
// JSON (replay files)
// ------------------------------------------------------------------------------------------

fn corrupt_json(c: &Corrupt) -> Value {
    match c {
        Corrupt::None => json!("none"),
        Corrupt::SetValid { gen } => json!({"set_valid": gen}),
        Corrupt::Truncate { len } => json!({"truncate": len}),
        Corrupt::SetField { field, value } => json!({"set_field": [field, value]}),
        Corrupt::Random { len, seed } => json!({"random": [len, seed]}),
        Corrupt::Dir => json!("dir"),
        Corrupt::Delete => json!("delete"),
        Corrupt::HeaderOnly { gen } => json!({"header_only": gen}),
        Corrupt::Header { m0, m1, segsize, version, gen, len } => json!({"header": [m0, m1, segsize, version, gen, len]}),
    }
}

fn corrupt_from(v: &Value) -> Corrupt {
    if let Some(s) = v.as_str() {
        return match s {
            "dir" => Corrupt::Dir,
            "delete" => Corrupt::Delete,
            _ => Corrupt::None,
        };
    }
    let u = |x: &Value| x.as_u64().unwrap_or(0);
    if let Some(g) = v.get("set_valid") {
        return Corrupt::SetValid { gen: u(g) as u16 };
    }
    if let Some(g) = v.get("truncate") {
        return Corrupt::Truncate { len: u(g) as u32 };
    }
    if let Some(g) = v.get("set_field") {
        return Corrupt::SetField { field: u(&g[0]) as u8, value: u(&g[1]) as u32 };
    }
    if let Some(g) = v.get("random") {
        return Corrupt::Random { len: u(&g[0]) as u32, seed: u(&g[1]) as u32 };
    }
    if let Some(g) = v.get("header") {
        return Corrupt::Header { m0: u(&g[0]) as u32, m1: u(&g[1]) as u32, segsize: u(&g[2]) as u32, version: u(&g[3]) as u16, gen: u(&g[4]) as u16, len: u(&g[5]) as u32 };
    }
    if let Some(g) = v.get("header_only") {
        return Corrupt::HeaderOnly { gen: u(g) as u16 };
    }
    Corrupt::None
}

impl ACfg {
    pub fn to_json(&self) -> Value {
        json!({
            "weak": self.weak, "stale_ppm": self.stale_ppm, "switch_ppm": self.switch_ppm, "pct_depth": self.pct_depth,
            "field_perm": self.field_perm, "init": corrupt_json(&self.init), "max_steps": self.max_steps, "hash_seed": self.hash_seed, "pingpong": self.pingpong, "repeat_pct": self.repeat_pct, "first_k": self.first_k, "script": self.script.iter().map(|(t, n)| vec![*t as u64, *n as u64]).collect::<Vec<_>>(),
            "preempts": self.preempts.iter().map(|p| vec![p.0 as u64, p.1 as u64, p.2 as u64, p.3 as u64, p.4 as u64, p.5 as u64]).collect::<Vec<_>>(),
            "incs": self.incs.iter().map(|i| json!({
                "writes": i.writes, "kill_at": i.kill_at, "io_err": i.io_err.map(|(a,b)| vec![a,b]),
                "corrupt_before": corrupt_json(&i.corrupt_before), "gap_ns": i.gap_ns, "write_gap_ns": i.write_gap_ns, "under_reader": i.under_reader, "wait_calls": i.wait_calls})).collect::<Vec<_>>(),
            "readers": self.readers.iter().map(|r| json!({
                "start_ns": r.start_ns, "retry_ns": r.retry_ns, "max_open_tries": r.max_open_tries, "sleep_pubs": r.sleep_pubs, "probe_apis": r.probe_apis, "reopen_each_call": r.reopen_each_call, "burst": r.burst, "hammer": r.hammer,
                "calls": r.calls.iter().map(|c| json!([c.gap_ns, c.sync_before])).collect::<Vec<_>>()})).collect::<Vec<_>>(),
        })
    }

    pub fn from_json(v: &Value) -> ACfg {
        let u = |x: &Value| x.as_u64().unwrap_or(0);
        let i = |x: &Value| x.as_i64().unwrap_or(0);
        let b = |x: &Value| x.as_bool().unwrap_or(false);
        ACfg {
            weak: b(&v["weak"]),
            stale_ppm: u(&v["stale_ppm"]) as u32,
            switch_ppm: u(&v["switch_ppm"]) as u32,
            pct_depth: u(&v["pct_depth"]) as u32,
            field_perm: b(&v["field_perm"]),
            init: corrupt_from(&v["init"]),
            max_steps: u(&v["max_steps"]),
            hash_seed: u(&v["hash_seed"]),
            repeat_pct: u(&v["repeat_pct"]) as u32,
            first_k: v["first_k"].as_i64().unwrap_or(1),
            preempts: v["preempts"].as_array().map(|a| a.iter().map(|p| (u(&p[0]) as usize, u(&p[1]) != 0, u(&p[2]) as u8, u(&p[3]) as u32, u(&p[4]) as usize, u(&p[5]) as u32)).collect()).unwrap_or_default(),
            script: v["script"].as_array().map(|a| a.iter().map(|p| (u(&p[0]) as usize, u(&p[1]) as u32)).collect()).unwrap_or_default(),
            pingpong: v["pingpong"].as_array().map(|a| a.iter().map(|x| u(x) as u32).collect()).unwrap_or_default(),
            incs: v["incs"]
                .as_array()
                .map(|a| {
                    a.iter()
                        .map(|x| IncCfg {
                            writes: u(&x["writes"]) as u32,
                            kill_at: x["kill_at"].as_u64().map(|k| k as u32),
                            io_err: x["io_err"].as_array().map(|p| (u(&p[0]) as u32, u(&p[1]) as u32)),
                            corrupt_before: corrupt_from(&x["corrupt_before"]),
                            gap_ns: i(&x["gap_ns"]),
                            write_gap_ns: i(&x["write_gap_ns"]),
                            under_reader: x["under_reader"].as_bool().unwrap_or(false),
                            wait_calls: x["wait_calls"].as_u64().unwrap_or(0) as u32,
                        })
                        .collect()
                })
                .unwrap_or_default(),
            readers: v["readers"]
                .as_array()
                .map(|a| {
                    a.iter()
                        .map(|x| ReaderCfg {
                            start_ns: i(&x["start_ns"]),
                            retry_ns: i(&x["retry_ns"]),
                            max_open_tries: u(&x["max_open_tries"]) as u32,
                            sleep_pubs: u(&x["sleep_pubs"]) as u32,
                            probe_apis: b(&x["probe_apis"]),
                            reopen_each_call: b(&x["reopen_each_call"]),
                            burst: u(&x["burst"]).max(1) as u32,
                            hammer: x["hammer"].as_u64().unwrap_or(0) as u32,
                            calls: x["calls"].as_array().map(|c| c.iter().map(|p| CallCfg { gap_ns: i(&p[0]), sync_before: b(&p[1]) }).collect()).unwrap_or_default(),
                        })
                        .collect()
                })
                .unwrap_or_default(),
        }
    }
}

// ------------------------------------------------------------------------------------------
// configuration generators (swarm)
// ------------------------------------------------------------------------------------------

const GEN_BIAS: [u16; 22] = [1, 2, 3, 4, 32766, 65532, 65533, 65534, 65535, 2, 254, 255, 256, 257, 32767, 32768, 32769, 65278, 65279, 65280, 510, 512];

fn gen_biased(r: &mut Rng) -> u16 {
    if r.chance(70) {
        *r.pick(&GEN_BIAS)
    } else {
        r.range(1, 65535) as u16
    }
}

/// Number of scheduling points of `ShmWriter::new` on a valid file: probe, mmap, version store.
const NEW_POINTS_VALID: u32 = 3;
/// … and when it has to wipe: + mkdir create magic0 magic1 segsize version generation body sync
const NEW_POINTS_WIPE: u32 = 12;
/// points of one `write`: gen load, gen store, fence, 8 field stores, gen store
const WRITE_POINTS: u32 = 12;

#[derive(Clone, Copy, Debug, PartialEq)]
pub enum Profile {
    /// sequentially consistent memory, no faults
    Sc,
    /// release/acquire memory model with stale loads, no kills
    Weak,
    /// SC + writer kills/restarts
    ScKill,
    /// weak + writer kills/restarts
    WeakKill,
    /// storage corruption between incarnations + I/O errors in wipe (C16)
    Corrupt,
    /// one update from each generation value in a chunk (C11), with and without a kill
    Sweep,
    /// reader sleeps through 32766/32767/32768/65534 publications (C03 wrap exception)
    Sleeper,
    /// long histories of one writer or one client: thousands of identical updates, a million
    /// cache hits, tens of thousands of polls during a writer outage
    Marathon,
    /// writer dies holding an odd generation right after a reader began copying (C18)
    DeadWriter,
    /// writer updates continuously while readers retry (C18, C02)
    Busy,
    /// adversarial alternation: every copy of the reader is disturbed by a complete update, for
    /// as long as the call lasts (C18: the retry budget must bound the call)
    Flood,
}

impl Profile {
    pub fn parse(s: &str) -> Option<Profile> {
        Some(match s {
            "sc" => Profile::Sc,
            "weak" => Profile::Weak,
            "sckill" => Profile::ScKill,
            "weakkill" => Profile::WeakKill,
            "corrupt" => Profile::Corrupt,
            "sweep" => Profile::Sweep,
            "sleeper" => Profile::Sleeper,
            "deadwriter" => Profile::DeadWriter,
            "busy" => Profile::Busy,
            "flood" => Profile::Flood,
            "marathon" => Profile::Marathon,
            _ => return None,
        })
    }
    pub fn name(&self) -> &'static str {
        match self {
            Profile::Sc => "sc",
            Profile::Weak => "weak",
            Profile::ScKill => "sckill",
            Profile::WeakKill => "weakkill",
            Profile::Corrupt => "corrupt",
            Profile::Sweep => "sweep",
            Profile::Sleeper => "sleeper",
            Profile::DeadWriter => "deadwriter",
            Profile::Busy => "busy",
            Profile::Flood => "flood",
            Profile::Marathon => "marathon",
        }
    }
}

fn gen_reader(r: &mut Rng, max_calls: u32, probe: bool) -> ReaderCfg {
    let n = r.range(1, max_calls as i64) as usize;
    ReaderCfg {
        start_ns: r.range(0, 600),
        retry_ns: r.range(20, 300),
        max_open_tries: 40,
        calls: (0..n).map(|_| CallCfg { gap_ns: if r.chance(50) { 0 } else { r.range(10, 400) }, sync_before: r.chance(35) }).collect(),
        sleep_pubs: 0,
        probe_apis: probe,
        reopen_each_call: probe,
        burst: 1,
        hammer: 0,
    }
}

pub fn gen_config(profile: Profile, run_seed: u64, index: u64) -> ACfg {
    let mut r = Rng::new(mix(run_seed, 0xA11CE));
    let weak = matches!(profile, Profile::Weak | Profile::WeakKill) || (matches!(profile, Profile::Busy | Profile::Corrupt) && r.chance(40));
    let kills = matches!(profile, Profile::ScKill | Profile::WeakKill);
    let mut cfg = ACfg {
        weak,
        stale_ppm: if weak { *r.pick(&[100_000u32, 300_000, 600_000]) } else { 0 },
        switch_ppm: *r.pick(&[500_000u32, 300_000, 200_000, 50_000]),
        pct_depth: 0,
        field_perm: r.chance(50),
        init: Corrupt::None,
        incs: Vec::new(),
        readers: Vec::new(),
        max_steps: 200_000,
        hash_seed: r.next(),
        pingpong: Vec::new(),
        repeat_pct: *r.pick(&[0u32, 0, 15, 40]),
        script: Vec::new(),
        preempts: Vec::new(),
        first_k: 1,
    };
    if r.chance(20) {
        cfg.switch_ppm = 0;
        cfg.pct_depth = r.range(1, 3) as u32;
    }
    match profile {
        Profile::Sc | Profile::Weak | Profile::ScKill | Profile::WeakKill | Profile::Busy => {
            cfg.init = match r.below(10) {
                0..=2 => Corrupt::None, // absent
                3..=7 => Corrupt::SetValid { gen: gen_biased(&mut r) & !1 | if r.chance(15) { 1 } else { 0 } },
                8 => Corrupt::HeaderOnly { gen: 0 },
                _ => Corrupt::Truncate { len: r.range(0, 15) as u32 },
            };
            if let Corrupt::SetValid { gen } = cfg.init {
                if gen == 0 {
                    cfg.init = Corrupt::SetValid { gen: 2 };
                }
            }
            let ninc = if kills { r.range(2, 4) } else { r.range(1, 2) } as usize;
            let busy = profile == Profile::Busy;
            for i in 0..ninc {
                let writes = if busy { r.range(6, 14) } else { r.range(0, 6) } as u32;
                let mut inc = IncCfg { writes, kill_at: None, io_err: None, corrupt_before: Corrupt::None, gap_ns: r.range(0, 300), write_gap_ns: if r.chance(60) { 0 } else { r.range(10, 200) }, under_reader: false, wait_calls: 0 };
                if kills && (i + 1 < ninc || r.chance(50)) && r.chance(80) {
                    // bias: land inside new/wipe or inside a write
                    let total = NEW_POINTS_WIPE + writes * WRITE_POINTS + 2;
                    inc.kill_at = Some(r.below(total as u64) as u32);
                }
                cfg.incs.push(inc);
            }
            let nr = r.range(1, 3) as usize;
            for _ in 0..nr {
                let mut rd = gen_reader(&mut r, if busy { 5 } else { 8 }, false);
                if busy {
                    for c in rd.calls.iter_mut() {
                        c.gap_ns = 0;
                    }
                }
                cfg.readers.push(rd);
            }
        }
        Profile::Corrupt => {
            cfg.init = gen_corruption(&mut r, true);
            let ninc = r.range(1, 3) as usize;
            for i in 0..ninc {
                let writes = r.range(0, 3) as u32;
                let mut inc = IncCfg { writes, kill_at: None, io_err: None, corrupt_before: Corrupt::None, gap_ns: r.range(0, 300), write_gap_ns: 0, under_reader: false, wait_calls: 0 };
                if i > 0 && r.chance(70) {
                    inc.corrupt_before = gen_corruption(&mut r, false);
                }
                if r.chance(25) {
                    inc.io_err = Some((r.below(10) as u32, *r.pick(&[libc::ENOSPC as u32, libc::EIO as u32, libc::EDQUOT as u32])));
                }
                if r.chance(25) {
                    inc.kill_at = Some(r.below((NEW_POINTS_WIPE + 3) as u64) as u32);
                }
                cfg.incs.push(inc);
            }
            let nr = r.range(1, 2) as usize;
            for _ in 0..nr {
                let mut rd = gen_reader(&mut r, 4, true);
                rd.max_open_tries = 12;
                cfg.readers.push(rd);
            }
        }
        Profile::Sweep => {
            cfg.repeat_pct = 0;
            // 32 start values per run; index selects the chunk so that a tier covers all 65536
            let chunk = 32u64;
            let base = (index * chunk) % 65536;
            cfg.switch_ppm = 0;
            cfg.pct_depth = 0;
            cfg.field_perm = false;
            cfg.weak = false;
            cfg.stale_ppm = 0;
            cfg.max_steps = 2_000_000;
            // three passes over the 65 536 start values: no fault; kill inside the write, then a new
            // record; kill at the closing generation store (record fully copied), then the SAME record
            let pass = (index * chunk) / 65536 % 3;
            let with_kill = pass >= 1;
            if pass == 2 {
                cfg.repeat_pct = 100;
            }
            for j in 0..chunk {
                let g = (base + j) as u16;
                let mut inc = IncCfg { writes: 1, kill_at: None, io_err: None, corrupt_before: Corrupt::SetValid { gen: g }, gap_ns: 0, write_gap_ns: 0, under_reader: false, wait_calls: 0 };
                if with_kill {
                    // kill inside the single write, then a second incarnation completes an update
                    let at = if g == 0 { NEW_POINTS_WIPE } else { NEW_POINTS_VALID } + if pass == 2 { WRITE_POINTS - 1 } else { r.below(WRITE_POINTS as u64) as u32 };
                    inc.kill_at = Some(at);
                    cfg.incs.push(inc);
                    cfg.incs.push(IncCfg { writes: 1, kill_at: None, io_err: None, corrupt_before: Corrupt::None, gap_ns: 0, write_gap_ns: 0, under_reader: false, wait_calls: 0 });
                } else {
                    cfg.incs.push(inc);
                }
            }
        }
        Profile::Sleeper => {
            cfg.repeat_pct = 0;
            // second half of the profile: the reader's first call races with a burst of three
            // publications (its retry loop runs), then it sleeps through 32767 - k publications
            // groups of seven runs: plain, raced, raced with a directed preemption (at least one
            // publication completes between the two generation loads of the client's first call),
            // and plain with a writer death and restart inside the sleeping window
            let group = (index / 7) % 4;
            let raced = group == 1 || group == 2;
            let death = group == 3;
            let burst = if raced { 3 } else { 1 };
            let i7 = (index % 7) as usize;
            // directed: the client's first generation load follows the j-th publication of the
            // burst, k further publications complete during its copy, and it sleeps until the
            // generation it loaded first is live again
            let jk = [(0u32, 1u32), (0, 2), (0, 3), (1, 1), (1, 2), (2, 1), (0, 1)][i7];
            let n = if group == 2 {
                32764 + jk.0 + if i7 == 6 { 32767 } else { 0 }
            } else if raced {
                [32764u32, 32765, 32766, 32767, 65532, 65533, 3][i7]
            } else if death {
                [32766u32, 32765, 32767, 65533, 32766, 65534, 3][i7]
            } else {
                [32766u32, 32767, 32768, 65534, 65535, 1, 2][i7]
            };
            cfg.switch_ppm = 300_000;
            cfg.pct_depth = 0;
            cfg.weak = false;
            cfg.stale_ppm = 0;
            cfg.field_perm = false;
            cfg.max_steps = 3_000_000;
            let g0 = gen_biased(&mut r) & !1;
            cfg.init = Corrupt::SetValid { gen: if g0 == 0 { 2 } else { g0 } };
            if death {
                // the writer dies inside its (burst + d + 1)-th update; its successor takes over
                // in place and completes the remaining publications
                let d = (r.range(2, 9) as u32).min(n.saturating_sub(1)).max(1);
                let at = NEW_POINTS_VALID + (burst + d) * WRITE_POINTS + 1 + 2 + r.below(9) as u32;
                cfg.incs.push(IncCfg { writes: burst + d + 1, kill_at: Some(at), io_err: None, corrupt_before: Corrupt::None, gap_ns: 0, write_gap_ns: 0, under_reader: false, wait_calls: 0 });
                cfg.incs.push(IncCfg { writes: n + 1 - d, kill_at: None, io_err: None, corrupt_before: Corrupt::None, gap_ns: 0, write_gap_ns: 0, under_reader: false, wait_calls: 0 });
            } else {
                cfg.incs.push(IncCfg { writes: burst + n + 1, kill_at: None, io_err: None, corrupt_before: Corrupt::None, gap_ns: 0, write_gap_ns: 0, under_reader: false, wait_calls: 0 });
            }
            if group == 2 {
                // when the writer is about to open its (j+1)-th update the client (just woken) runs
                // three accesses: version, generation (even, j publications done), first field;
                // at the client's re-check the writer runs for k updates' worth of accesses
                cfg.preempts = vec![(0, true, LOC_GEN as u8, 2 * jk.0 + 1, 1, 3), (1, false, LOC_GEN as u8, 2, 0, WRITE_POINTS * jk.1 + r.below(6) as u32)];
            }
            cfg.readers.push(ReaderCfg {
                // first call while the writer pauses after its first publication (or, raced, while
                // the initial burst is being published)
                start_ns: if group == 2 { 25 + 120 * jk.0 as i64 } else if raced { r.range(60, 420) } else { 2_000 },
                retry_ns: 50,
                max_open_tries: 40,
                calls: vec![CallCfg { gap_ns: 0, sync_before: false }, CallCfg { gap_ns: 0, sync_before: false }, CallCfg { gap_ns: 10_000, sync_before: false }],
                sleep_pubs: n,
                probe_apis: false,
                reopen_each_call: false,
                burst,
                hammer: 0,
            });
        }
        Profile::Marathon => {
            cfg.weak = false;
            cfg.stale_ppm = 0;
            cfg.pct_depth = 0;
            cfg.field_perm = false;
            cfg.switch_ppm = *r.pick(&[300_000u32, 500_000]);
            let g0 = gen_biased(&mut r) & !1;
            cfg.init = Corrupt::SetValid { gen: if g0 == 0 { 2 } else { g0 } };
            let quiet_call = CallCfg { gap_ns: 0, sync_before: false };
            match index % 3 {
                0 => {
                    // thousands of consecutive updates with one and the same record, each of the
                    // three stored statuses in turn
                    cfg.repeat_pct = 100;
                    cfg.first_k = 1 + (index / 3) as i64 % 3;
                    cfg.max_steps = 2_000_000;
                    cfg.incs.push(IncCfg { writes: r.range(4_200, 4_600) as u32, kill_at: None, io_err: None, corrupt_before: Corrupt::None, gap_ns: 0, write_gap_ns: 0, under_reader: false, wait_calls: 0 });
                    let mut rd = gen_reader(&mut r, 6, false);
                    for c in rd.calls.iter_mut() {
                        c.gap_ns = r.range(1_000, 400_000);
                    }
                    cfg.readers.push(rd);
                }
                1 => {
                    // one client answers from its cache a million times, sleeps through exactly
                    // 32767 updates (same generation, other record) and goes on calling
                    cfg.repeat_pct = 0;
                    cfg.max_steps = 140_000_000;
                    let n = 32_767u32;
                    // (no further update: the writer stays idle while the client goes on calling)
                    cfg.incs.push(IncCfg { writes: 1 + n, kill_at: None, io_err: None, corrupt_before: Corrupt::None, gap_ns: 0, write_gap_ns: 0, under_reader: false, wait_calls: 0 });
                    let mut calls = vec![quiet_call.clone(), quiet_call.clone()];
                    calls.extend((0..64).map(|_| quiet_call.clone()));
                    cfg.readers.push(ReaderCfg { start_ns: 2_000, retry_ns: 50, max_open_tries: 40, calls, sleep_pubs: n, probe_apis: false, reopen_each_call: false, burst: 1, hammer: (1 << 20) - 24 - r.below(16) as u32 });
                }
                _ => {
                    // the writer dies inside an update; one client polls tens of thousands of times
                    // during the outage; the restarted daemon completes an update and dies inside
                    // the next one while that client is copying
                    cfg.repeat_pct = 0;
                    cfg.max_steps = 140_000_000;
                    let hammer = *r.pick(&[62_600u32, 66_000, 131_200]);
                    cfg.incs.push(IncCfg { writes: 2, kill_at: Some(NEW_POINTS_VALID + WRITE_POINTS + 1 + 2 + r.below(9) as u32), io_err: None, corrupt_before: Corrupt::None, gap_ns: 0, write_gap_ns: 2_000, under_reader: false, wait_calls: 0 });
                    cfg.incs.push(IncCfg { writes: 2, kill_at: Some(NEW_POINTS_VALID + WRITE_POINTS + 1 + 2 + r.below(9) as u32), io_err: None, corrupt_before: Corrupt::None, gap_ns: 0, write_gap_ns: r.range(20, 160), under_reader: false, wait_calls: 1 + hammer });
                    let calls: Vec<CallCfg> = (0..400).map(|_| quiet_call.clone()).collect();
                    cfg.readers.push(ReaderCfg { start_ns: 1_000, retry_ns: 50, max_open_tries: 40, calls, sleep_pubs: 0, probe_apis: false, reopen_each_call: false, burst: 1, hammer });
                }
            }
        }
        Profile::Flood => {
            cfg.repeat_pct = 0;
            cfg.weak = false;
            cfg.stale_ppm = 0;
            cfg.pct_depth = 0;
            cfg.field_perm = false;
            cfg.max_steps = 260_000_000;
            cfg.init = Corrupt::SetValid { gen: gen_biased(&mut r) & !1 | 2 };
            // a whole update (12 steps) or a bit more/less per reader quantum of 3..11 steps
            // the writer's quantum is not a multiple of its 12-step update, so the phase at which the
            // reader's calls begin drifts until one starts on an even generation
            cfg.pingpong = vec![*r.pick(&[13u32, 13, 17]), r.range(8, 10) as u32];
            cfg.incs.push(IncCfg { writes: u32::MAX, kill_at: None, io_err: None, corrupt_before: Corrupt::None, gap_ns: 0, write_gap_ns: 0, under_reader: false, wait_calls: 0 });
            let mut rd = gen_reader(&mut r, 2, false);
            rd.start_ns = 0;
            rd.retry_ns = 20;
            rd.calls = (0..40).map(|_| CallCfg { gap_ns: 0, sync_before: false }).collect();
            cfg.readers.push(rd);
        }
        Profile::DeadWriter => {
            cfg.repeat_pct = 0;
            cfg.weak = false;
            cfg.stale_ppm = 0;
            cfg.pct_depth = 0;
            cfg.switch_ppm = *r.pick(&[500_000u32, 400_000, 300_000]);
            cfg.max_steps = 130_000_000;
            cfg.init = Corrupt::SetValid { gen: gen_biased(&mut r) & !1 | 2 };
            let scripted = index % 2 == 1;
            let mut w = r.range(1, 3) as u32;
            if scripted && r.chance(50) {
                // the writer's last complete update crosses the wrap of the generation counter
                // and the one it dies in starts just after it
                w = r.range(2, 3) as u32;
                cfg.init = Corrupt::SetValid { gen: (65536 - 2 * (w - 1)) as u16 };
            }
            // die inside the last write: right after the odd generation store, or part-way through
            // the record (so that a copy taken meanwhile is a blend)
            let at = NEW_POINTS_VALID + (w - 1) * WRITE_POINTS + 2 + r.below(9) as u32;
            cfg.incs.push(IncCfg { writes: w, kill_at: Some(at), io_err: None, corrupt_before: Corrupt::None, gap_ns: 0, write_gap_ns: 0, under_reader: false, wait_calls: 0 });
            if index % 4 == 3 {
                // a third party damages the header while the first client is between its first
                // generation load and the re-check; the restarted daemon re-initialises the file
                // under that client and dies before (or in) its first update
                cfg.init = Corrupt::SetValid { gen: gen_biased(&mut r) & !1 | 2 };
                let w = r.below(2) as u32;
                cfg.incs[0] = IncCfg {
                    writes: w,
                    kill_at: if w == 0 || r.chance(30) { None } else { Some(NEW_POINTS_WIPE + r.below(WRITE_POINTS as u64 - 1) as u32) },
                    io_err: None,
                    corrupt_before: Corrupt::SetField { field: r.below(2) as u8, value: r.next() as u32 | 1 },
                    gap_ns: 0,
                    write_gap_ns: 0,
                    under_reader: true,
                    wait_calls: 0,
                };
                cfg.preempts = vec![(1, false, LOC_GEN as u8, 2 + r.below(2) as u32, 0, 4000)];
                cfg.switch_ppm = *r.pick(&[300_000u32, 50_000]);
            } else if scripted {
                // scripted: the first client loads the resting generation, then the writer runs all
                // the way to its death (w-1 complete updates, possibly across the wrap), then the
                // client resumes its copy and re-check
                cfg.script = vec![(1, 1), (0, 3 + r.below(2) as u32), (1, 2 + r.below(3) as u32), (0, 1000)];
                cfg.switch_ppm = *r.pick(&[300_000u32, 50_000]);
            }
            for i in 0..2 {
                let mut rd = gen_reader(&mut r, 3, false);
                if rd.calls.len() < 2 {
                    rd.calls.push(CallCfg { gap_ns: 0, sync_before: false });
                }
                // the second client attaches after the writer's death (odd generation in the file)
                rd.start_ns = if i == 0 { 0 } else { 20_000 };
                rd.retry_ns = 20;
                for c in rd.calls.iter_mut() {
                    c.gap_ns = 0;
                    c.sync_before = false;
                }
                cfg.readers.push(rd);
            }
        }
    }
    cfg
}

fn gen_corruption(r: &mut Rng, allow_absent: bool) -> Corrupt {
    match r.below(14) {
        12 => {
            // near misses of the magic number on an otherwise valid segment
            let (a, b) = (P_MAGIC0, P_MAGIC1);
            let bit = 1u32 << r.below(32);
            let (m0, m1) = match r.below(8) {
                0 => (a.swap_bytes(), b.swap_bytes()),
                1 => (b, a),
                2 => (a.rotate_left(16), b.rotate_left(16)),
                3 => (a ^ bit, b),
                4 => (a, b ^ bit),
                5 => (a.reverse_bits(), b.reverse_bits()),
                6 => (b.swap_bytes(), a.swap_bytes()),
                _ => (a.swap_bytes(), b),
            };
            Corrupt::Header { m0, m1, segsize: 72, version: 1, gen: gen_biased(r) & !1 | 2, len: *r.pick(&[72u32, 72, 80, 4096]) }
        }
        13 => {
            // well-formed header declaring a size that is too small, over a file of another length
            Corrupt::Header { m0: P_MAGIC0, m1: P_MAGIC1, segsize: *r.pick(&[16u32, 17, 40, 64, 71]), version: 1, gen: gen_biased(r) & !1 | 2, len: *r.pick(&[16u32, 24, 40, 71, 72, 73, 80, 200]) }
        }
        0 => {
            if allow_absent {
                Corrupt::None
            } else {
                Corrupt::Delete
            }
        }
        1..=3 => Corrupt::Truncate { len: r.range(0, 80) as u32 },
        4..=7 => {
            let field = r.below(5) as u8;
            let value = match field {
                0 | 1 => *r.pick(&[0u32, 0x414D5A4E, 0x43420200, 0x4E5A4D41, 1]),
                2 => *r.pick(&[0u32, 15, 16, 17, 71, 72, 73, 400, 4096, u32::MAX]),
                3 => *r.pick(&[0u32, 1, 2, 65535]),
                _ => *r.pick(&[0u32, 1, 2, 3, 65534, 65535]),
            };
            Corrupt::SetField { field, value }
        }
        8 => Corrupt::Random { len: r.range(0, 100) as u32, seed: r.next() as u32 },
        9 => Corrupt::Dir,
        10 => Corrupt::HeaderOnly { gen: r.range(0, 4) as u16 },
        _ => Corrupt::SetValid { gen: gen_biased(r) },
    }
}

// ------------------------------------------------------------------------------------------
// records
// ------------------------------------------------------------------------------------------

pub fn rec_of(k: i64) -> PRecord {
    let v = VBASE + k;
    PRecord { as_of_s: v, as_of_ns: v, void_s: v, void_ns: v, bound: v, drift: v as u32, reserved: v as u32, status: (v % 3) as i32 }
}

/// Decode a record returned by a reader: `Ok(index)` (−1 = the empty initial record), or the
/// description of an inconsistency.
pub fn index_of(r: &PRecord) -> Result<i64, String> {
    if *r == PRecord::default() {
        return Ok(-1);
    }
    let v = r.as_of_s;
    let ok = r.as_of_ns == v && r.void_s == v && r.void_ns == v && r.bound == v && r.drift as i64 == v && r.reserved as i64 == v && r.status as i64 == v % 3 && v >= VBASE;
    if ok {
        Ok(v - VBASE)
    } else {
        Err(format!("{:?}", r))
    }
}

fn valid_segment_bytes(gen: u16, k: i64) -> Vec<u8> {
    encode_segment(&PSegment { len: 72, magic0: P_MAGIC0, magic1: P_MAGIC1, segsize: 72, version: 1, generation: gen, rec: rec_of(k) })
}

pub fn corrupt_to_json(c: &Corrupt) -> Value {
    corrupt_json(c)
}

pub fn corrupt_from_json(v: &Value) -> Corrupt {
    corrupt_from(v)
}

pub fn apply_corruption(path: &Path, c: &Corrupt) {
    let rm = |p: &Path| {
        if p.is_dir() {
            let _ = std::fs::remove_dir_all(p);
        } else {
            let _ = std::fs::remove_file(p);
        }
    };
    // rewrite in place where possible (keeps the inode, like a crash leftover would)
    let write_in_place = |bytes: &[u8]| {
        use std::io::Write;
        if path.is_dir() {
            let _ = std::fs::remove_dir_all(path);
        }
        if let Some(p) = path.parent() {
            let _ = std::fs::create_dir_all(p);
        }
        let mut f = std::fs::OpenOptions::new().write(true).create(true).truncate(false).open(path).expect("open for corruption");
        f.write_all(bytes).expect("write");
        f.set_len(bytes.len() as u64).expect("set_len");
    };
    match c {
        Corrupt::None => {}
        Corrupt::SetValid { gen } => write_in_place(&valid_segment_bytes(*gen, 0)),
        Corrupt::Truncate { len } => {
            let mut b = read_file_bytes(path).unwrap_or_else(|| valid_segment_bytes(2, 0));
            if b.is_empty() {
                b = valid_segment_bytes(2, 0);
            }
            b.resize(*len as usize, 0);
            write_in_place(&b);
        }
        Corrupt::SetField { field, value } => {
            let mut b = read_file_bytes(path).unwrap_or_default();
            if b.len() < 72 {
                b = valid_segment_bytes(2, 0);
            }
            match field {
                0 => b[0..4].copy_from_slice(&value.to_ne_bytes()),
                1 => b[4..8].copy_from_slice(&value.to_ne_bytes()),
                2 => b[8..12].copy_from_slice(&value.to_ne_bytes()),
                3 => b[12..14].copy_from_slice(&(*value as u16).to_ne_bytes()),
                _ => b[14..16].copy_from_slice(&(*value as u16).to_ne_bytes()),
            }
            write_in_place(&b);
        }
        Corrupt::Random { len, seed } => {
            let mut r = Rng::new(*seed as u64);
            let b: Vec<u8> = (0..*len).map(|_| r.next() as u8).collect();
            write_in_place(&b);
        }
        Corrupt::Dir => {
            rm(path);
            let _ = std::fs::create_dir_all(path);
        }
        Corrupt::Delete => rm(path),
        Corrupt::HeaderOnly { gen } => {
            let b = valid_segment_bytes(*gen, 0);
            write_in_place(&b[..16]);
        }
        Corrupt::Header { m0, m1, segsize, version, gen, len } => {
            let mut b = valid_segment_bytes(*gen, 0);
            b[0..4].copy_from_slice(&m0.to_ne_bytes());
            b[4..8].copy_from_slice(&m1.to_ne_bytes());
            b[8..12].copy_from_slice(&segsize.to_ne_bytes());
            b[12..14].copy_from_slice(&version.to_ne_bytes());
            b.resize(*len as usize, 0);
            write_in_place(&b);
        }
    }
}

// ------------------------------------------------------------------------------------------
// oracle state
// ------------------------------------------------------------------------------------------

#[derive(Clone, Debug)]
struct PubInfo {
    k: i64,
    gen_after: u16,
    inc: u32,
    /// the generation the documented arithmetic gives after this publication
    model_after: Option<u16>,
}

#[derive(Default, Clone, Debug)]
struct CallState {
    active: bool,
    pubs_at_begin: usize,
    inflight_at_begin: bool,
    writer_began_during: bool,
    writer_step_during: bool,
    loads: u64,
    gen_loads: u32,
    first_gen: Option<u16>,
    copies: u32,
    synced: bool,
    live_gen_at_begin: u16,
    version_at_begin: u16,
    last_gen_load: Option<u16>,
    untrusted: bool,
}

#[derive(Default, Clone, Debug)]
struct ReaderState {
    tid: u32,
    last_idx: i64,
    last_gen: Option<u16>,
    /// documented generation of the publication the cached record belongs to
    last_model: Option<u16>,
    call: CallState,
    calls_done: u32,
    distinct_results: u32,
    opened: bool,
    /// an open (ShmReader::new / client open) is executing; shared accesses it has performed
    open_active: bool,
    open_loads: u64,
}

pub struct AState {
    pub out: Outcome,
    path: PathBuf,
    weak: bool,
    published: Vec<PubInfo>,
    /// k of the update in flight (begun, not completed); stays set after a kill
    in_flight: Option<i64>,
    any_published: bool,
    seg_published: bool,
    readers: Vec<ReaderState>,
    cur_inc: u32,
    kills: u32,
    // C11 tracking of the current write
    w_gen_at_begin: Option<u16>,
    w_gen_stores: Vec<u16>,
    w_field_stores: u32,
    w_active: bool,
    // C04c
    new_active: bool,
    valid_at_new_entry: bool,
    bytes_at_entry: Vec<u8>,
    ino_at_entry: u64,
    wiped_in_new: bool,
    reader_access_in_write: bool,
    corruptions: u32,
    attached: u32,
    readers_finished: u32,
    wiped_this_inc: bool,
    /// the record bytes in the file stem from an injected corruption, not from a publication
    content_untrusted: bool,
    /// a third party overwrote the file while a client had it mapped: only termination is judged
    third_party: bool,
    /// the daemon has begun to re-create the file and has not published into it yet
    recreating: bool,
    /// the generation according to the documented arithmetic (+1 to open an update from an even
    /// value, +1 to close it, 0 skipped, 0 after a re-creation); None while the file holds
    /// content injected by the environment
    model_gen: Option<u16>,
    init_gen: Option<u16>,
    max_loads_in_call: u64,
    sample_hist: Vec<Value>,
    /// no corruption in this run: the backing file keeps its inode, so one descriptor serves all reads
    stable_file: bool,
    cached_fd: i32,
    /// generation as last stored/imported (tracked from the event stream)
    live_gen: Option<u16>,
}

fn file_ino(p: &Path) -> u64 {
    use std::os::unix::fs::MetadataExt;
    std::fs::metadata(p).map(|m| m.ino()).unwrap_or(0)
}

impl AState {
    fn new(path: PathBuf, weak: bool, nreaders: usize) -> AState {
        AState {
            out: Outcome::default(),
            path,
            weak,
            published: Vec::new(),
            in_flight: None,
            any_published: false,
            seg_published: false,
            readers: (0..nreaders).map(|_| ReaderState { tid: u32::MAX, last_idx: -1, ..Default::default() }).collect(),
            cur_inc: 0,
            kills: 0,
            w_gen_at_begin: None,
            w_gen_stores: Vec::new(),
            w_field_stores: 0,
            w_active: false,
            new_active: false,
            valid_at_new_entry: false,
            bytes_at_entry: Vec::new(),
            ino_at_entry: 0,
            wiped_in_new: false,
            reader_access_in_write: false,
            corruptions: 0,
            attached: 0,
            readers_finished: 0,
            wiped_this_inc: false,
            content_untrusted: false,
            third_party: false,
            recreating: false,
            model_gen: None,
            init_gen: None,
            max_loads_in_call: 0,
            sample_hist: Vec::new(),
            stable_file: false,
            cached_fd: -1,
            live_gen: None,
        }
    }

    fn hist(&mut self, v: Value) {
        if self.sample_hist.len() < 60 {
            self.sample_hist.push(v);
        }
    }

    fn newest_idx(&self) -> i64 {
        self.published.last().map(|p| p.k).unwrap_or(-2)
    }

    fn file_bytes(&mut self) -> Option<Vec<u8>> {
        if !self.stable_file {
            return read_file_bytes(&self.path);
        }
        if self.cached_fd < 0 {
            use std::os::unix::ffi::OsStrExt;
            let c = CString::new(self.path.as_os_str().as_bytes()).ok()?;
            self.cached_fd = unsafe { libc::open(c.as_ptr(), libc::O_RDONLY | libc::O_CLOEXEC) };
            if self.cached_fd < 0 {
                return None;
            }
        }
        Some(pread_fd(self.cached_fd, 4096))
    }

    fn live_header(&mut self) -> Option<PSegment> {
        self.file_bytes().filter(|b| b.len() >= 16).map(|b| decode_segment(&b))
    }

    // ---- called directly by harness threads (they hold the baton) ----

    fn inc_begin(&mut self, i: u32) {
        self.cur_inc = i;
        self.wiped_this_inc = false;
    }

    fn write_begin(&mut self, k: i64) {
        self.in_flight = Some(k);
        self.w_active = true;
        self.w_gen_stores.clear();
        self.w_field_stores = 0;
        self.w_gen_at_begin = if self.stable_file && self.live_gen.is_some() { self.live_gen } else { self.live_header().map(|h| h.generation) };
        if self.model_gen.is_none() && !self.content_untrusted {
            self.model_gen = self.w_gen_at_begin;
        }
        if let Some(g) = self.model_gen {
            if g & 1 == 0 {
                self.model_gen = Some(g.wrapping_add(1));
            }
        }
        for r in self.readers.iter_mut() {
            if r.call.active {
                r.call.writer_began_during = true;
            }
        }
    }

    fn write_end(&mut self, k: i64) {
        self.w_active = false;
        let gen_now = if self.stable_file && self.live_gen.is_some() { self.live_gen.unwrap() } else { self.live_header().map(|h| h.generation).unwrap_or(0) };
        // C11: shape of the generation sequence of one complete update
        let g0 = self.w_gen_at_begin.unwrap_or(0);
        self.out.cover("generation_values_an_update_started_from", g0 as u64);
        let expect_odd = if g0 & 1 == 0 { g0.wrapping_add(1) } else { g0 };
        let mut expect_even = expect_odd.wrapping_add(1);
        if expect_even == 0 {
            expect_even = 2;
        }
        let stores = self.w_gen_stores.clone();
        let ok = stores.len() == 2 && stores[0] == expect_odd && stores[1] == expect_even && gen_now == expect_even && self.w_field_stores == 8;
        if !ok {
            self.out.violate(
                &["C11"],
                "gen_sequence",
                format!("start={} stores={:?}", classify_gen(g0), stores.iter().map(|g| classify_rel(g0, *g)).collect::<Vec<_>>()),
                format!("update from generation {g0}: generation stores {stores:?}, field stores {}, generation afterwards {gen_now}; expected [{expect_odd}, {expect_even}]", self.w_field_stores),
            );
        }
        if gen_now == 0 || gen_now & 1 == 1 {
            self.out.violate(&["C11"], "gen_after_update", format!("after={}", classify_gen(gen_now)), format!("generation {gen_now} after completed update {k} (from {g0})"));
        }
        if g0 >= 65533 {
            self.out.probe("probe.generation_wrapped");
        }
        if g0 & 1 == 1 {
            self.out.probe("probe.adopted_odd_generation");
        }
        if g0 == 0 {
            self.out.probe("probe.first_update_from_zero");
        }
        if let Some(g) = self.model_gen {
            let mut e = g.wrapping_add(1);
            if e == 0 {
                e = 2;
            }
            self.model_gen = Some(e);
        }
        self.published.push(PubInfo { k, gen_after: gen_now, inc: self.cur_inc, model_after: self.model_gen });
        self.in_flight = None;
        self.any_published = true;
        self.seg_published = true;
        self.content_untrusted = false;
        self.recreating = false;
        self.out.nontrivial.insert("C11");
        // C17 layout: the file must now decode, by the documented layout, to exactly record k
        // (every publication at first, then a sample: long runs publish millions of records)
        let np = self.published.len();
        if np > 256 && np % 1024 != 0 {
            return;
        }
        if let Some(b) = self.file_bytes() {
            let s = decode_segment(&b);
            if b.len() < P_TOTAL {
                // a valid header over a short body was taken over in place: nothing documented about its length
                self.out.probe("probe.short_valid_file_taken_over");
            } else if s.rec != rec_of(k) || s.magic0 != P_MAGIC0 || s.magic1 != P_MAGIC1 || s.version == 0 || (s.segsize as usize) < P_TOTAL {
                self.out.violate(&["C17"], "layout_after_write", format!("len={}", b.len().min(99)), format!("file does not decode per PROTOCOL.md to record {k}: len {} decoded {:?}", b.len(), s));
            } else {
                self.out.probe("judged.layout_decodes");
            }
        }
        self.hist(json!({"publish": k, "gen": gen_now, "inc": self.cur_inc}));
    }

    fn reader_opened(&mut self, ri: usize, tid: u32) {
        let r = &mut self.readers[ri];
        r.tid = tid;
        r.opened = true;
        // a new ShmReader starts with an empty cache
        r.last_idx = -1;
        r.last_gen = None;
        self.attached += 1;
    }

    fn open_begin(&mut self, ri: usize, tid: u32) {
        let r = &mut self.readers[ri];
        r.tid = tid;
        r.open_active = true;
        r.open_loads = 0;
    }

    fn open_end(&mut self, ri: usize) {
        let r = &mut self.readers[ri];
        r.open_active = false;
        let n = r.open_loads;
        self.out.probe("judged.open_calls_bounded");
        if n > MAX_ACCESSES_PER_CALL {
            self.out.violate(&["C18"], "unbounded_open", "loads>1e8".into(), format!("opening the segment performed {n} shared accesses"));
        }
    }

    fn reader_closed(&mut self, _ri: usize) {
        self.attached -= 1;
    }

    fn call_begin(&mut self, ri: usize, synced: bool) {
        let hdr = self.live_header();
        let c = CallState {
            active: true,
            pubs_at_begin: self.published.len(),
            inflight_at_begin: self.in_flight.is_some(),
            synced,
            live_gen_at_begin: hdr.map(|h| h.generation).unwrap_or(0),
            version_at_begin: hdr.map(|h| h.version).unwrap_or(0),
            untrusted: self.content_untrusted,
            ..Default::default()
        };
        self.readers[ri].call = c;
    }

    fn call_end(&mut self, ri: usize, res: Result<PRecord, String>) {
        let kills = self.kills;
        let newest = self.newest_idx();
        let rs = self.readers[ri].clone();
        let c = rs.call.clone();
        self.readers[ri].call.active = false;
        self.readers[ri].calls_done += 1;
        if c.loads > self.max_loads_in_call {
            self.max_loads_in_call = c.loads;
        }
        // ---- C18: bounded work ----
        self.out.probe("judged.snapshot_calls");
        if c.loads > MAX_ACCESSES_PER_CALL {
            self.out.violate(&["C18"], "unbounded_call", "loads>1e8".into(), format!("snapshot() performed {} shared accesses", c.loads));
        }
        // C02, whatever happened to the file: a copy is only ever accepted against an even
        // generation (the re-check that validates it is the call's last generation load)
        if res.is_ok() && c.copies >= 1 {
            match c.last_gen_load {
                Some(g) if g & 1 == 1 => {
                    self.out.violate(&["C02", "C01", "C05", "C06"], "copy_accepted_under_odd_generation", format!("weak={}", self.weak), format!("reader {ri} returned a freshly copied record although the generation it last loaded was {g} (an update was in flight)"));
                }
                _ => self.out.probe("judged.accepted_copies_validated_by_even_generation"),
            }
        }
        if self.third_party {
            self.out.probe("probe.call_over_file_overwritten_under_client_returned");
            self.out.nontrivial.insert("C18");
            let r = &mut self.readers[ri];
            r.last_idx = -1;
            r.last_gen = None;
            return;
        }
        if let Some(g) = c.first_gen {
            let early = g == 0 || g & 1 == 1 || Some(g) == rs.last_gen;
            if early {
                self.out.probe("probe.call_with_odd_zero_or_cached_generation");
                if g & 1 == 1 {
                    self.out.probe("probe.call_began_with_odd_generation");
                    self.out.nontrivial.insert("C18");
                }
                // (answering from the cache when the generation is the cached one is an optimisation,
                // not a promise: only the odd / zero cases are "instead of waiting")
                if c.loads > 2 && (g == 0 || g & 1 == 1) {
                    self.out.violate(
                        &["C18"],
                        "waited_on_writer",
                        format!("first_gen={}", if g == 0 { "zero" } else if g & 1 == 1 { "odd" } else { "cached" }),
                        format!("first generation read was {g} (cached {:?}) yet the call went on to perform {} accesses instead of answering from its snapshot", rs.last_gen, c.loads),
                    );
                }
            }
        }
        // (sound only without staleness: a late-propagating store is indistinguishable from a writer step)
        if !self.weak && !c.writer_step_during && c.copies > 1 {
            self.out.violate(&["C18"], "retry_without_writer", format!("copies={}", c.copies.min(9)), format!("no writer step during the call, yet {} copies of the record were made", c.copies));
        }
        if c.copies >= 2 {
            self.out.probe("probe.retry_loop_iterated");
            self.out.nontrivial.insert("C18");
        }
        if c.copies >= 1_000_000 {
            self.out.probe("probe.retry_cap_reached");
        }
        let rec = match res {
            Ok(r) => r,
            Err(e) => {
                self.hist(json!({"reader": ri, "err": e}));
                // an error is a legitimate outcome only when the retry budget was exhausted
                if c.copies < 2 {
                    self.out.violate(&["C18", "C03"], "spurious_error", format!("err={e}"), format!("snapshot() failed with {e} after {} copies", c.copies));
                }
                return;
            }
        };
        if c.untrusted || self.content_untrusted {
            // the file content was injected by the environment: nothing to compare the record with
            self.out.probe("probe.result_over_corrupted_content_not_judged");
            let r = &mut self.readers[ri];
            r.last_idx = -1;
            r.last_gen = None;
            return;
        }
        // ---- C02: exactly one published record ----
        self.out.probe("judged.snapshot_results");
        // (a blended or never-published record also voids the end-to-end containment promise, C01,
        // which rests on the consistent snapshot)
        // and, like an unexplained answer in the pipeline world, the client laws C05/C06, which
        // speak of the record the daemon published
        let mut props02: Vec<&'static str> = vec!["C02", "C01", "C05", "C06"];
        if kills > 0 {
            props02.push("C04");
        }
        if self.recreating {
            // a client got hold of a file the daemon is still re-creating (C16: opening succeeds
            // only on an initialised segment, and what is read back is what was published)
            props02.push("C16");
        }
        let idx = match index_of(&rec) {
            Ok(i) => i,
            Err(d) => {
                let vals = [rec.as_of_s, rec.as_of_ns, rec.void_s, rec.void_ns, rec.bound, rec.drift as i64, rec.reserved as i64];
                let lo = vals.iter().min().unwrap();
                let hi = vals.iter().max().unwrap();
                self.out.violate(&props02, "torn_read", { let _ = (hi, lo); format!("weak={}", self.weak) }, format!("reader {ri} obtained a blend of publications: {d} (published so far: {})", self.published.len()));
                self.hist(json!({"reader": ri, "torn": d}));
                return;
            }
        };
        let known = idx == -1 || idx == 0 || self.published.iter().any(|p| p.k == idx);
        if !known {
            self.out.violate(&props02, "unpublished_record", format!("weak={} inflight={}", self.weak, self.in_flight == Some(idx)), format!("reader {ri} obtained record {idx} which was never published in full (in flight: {:?})", self.in_flight));
        }
        // ---- C03a: never back in time ----
        let mut props03: Vec<&'static str> = vec!["C03"];
        if kills > 0 {
            props03.push("C04");
        }
        if idx < rs.last_idx {
            self.out.violate(&props03, "went_backwards", format!("weak={} to_empty={}", self.weak, idx == -1), format!("reader {ri} obtained record {idx} after having obtained {}", rs.last_idx));
        }
        // ---- C03b / C04b: freshness when no update is in flight during the call ----
        let quiet = !c.inflight_at_begin && !c.writer_began_during && self.in_flight.is_none() && c.pubs_at_begin == self.published.len();
        let judged = quiet && (!self.weak || c.synced) && c.version_at_begin != 0 && c.live_gen_at_begin != 0;
        if judged && self.any_published {
            // the documented collision: the generation is again the one the cached record was
            // validated against. Judged on the documented arithmetic where it is known, so that a
            // writer whose counter collides early or late does not excuse the client.
            let collision = match (self.model_gen, rs.last_model) {
                (Some(m), Some(l)) => m == l,
                _ => rs.last_gen == Some(c.live_gen_at_begin),
            };
            let exception = rs.last_gen.is_some() && collision && rs.last_idx != newest;
            // (under the documented generation collision the client may answer from its cache; it
            // may just as well have looked and found the newest record)
            let expect = if exception && idx != newest { rs.last_idx } else { newest };
            if exception {
                self.out.probe("probe.wrap_exception_applied");
            }
            self.out.probe("judged.freshness_calls");
            if rs.last_idx != newest {
                self.out.probe("probe.catch_up_required");
                self.out.nontrivial.insert("C03");
            }
            if idx != expect {
                let cross = self.published.last().map(|p| p.inc).unwrap_or(0) != self.published.iter().find(|p| p.k == rs.last_idx).map(|p| p.inc).unwrap_or(u32::MAX);
                let mut props: Vec<&'static str> = vec!["C03"];
                if kills > 0 || cross {
                    props.push("C04");
                }
                let behind = newest - idx;
                self.out.violate(
                    &props,
                    "stale_when_idle",
                    format!("weak={} behind={} exception={}", self.weak, if behind % 32767 == 0 { "k*32767".to_string() } else { behind.min(9).to_string() }, exception),
                    format!("no update in flight during the call, newest publication is {newest}, reader {ri} (cached {} gen {:?}, live gen {}) obtained {idx}, expected {expect}", rs.last_idx, rs.last_gen, c.live_gen_at_begin),
                );
            }
        }
        if kills > 0 && self.published.iter().any(|p| p.k == idx && p.inc > 0) {
            self.out.nontrivial.insert("C04");
        }
        let model_of = if idx == 0 { match self.init_gen { Some(g) => Some(g), None => None } } else { self.published.iter().rev().find(|p| p.k == idx).and_then(|p| p.model_after) };
        let r = &mut self.readers[ri];
        if idx != r.last_idx {
            r.distinct_results += 1;
            if r.distinct_results >= 2 {
                self.out.nontrivial.insert("C03");
            }
        }
        r.last_idx = idx;
        // the generation the accepted record was validated against
        if c.copies > 0 {
            r.last_gen = c.last_gen_load;
            r.last_model = model_of;
        }
        self.hist(json!({"reader": ri, "got": idx, "newest": newest, "copies": c.copies}));
    }
}

fn classify_gen(g: u16) -> &'static str {
    match g {
        0 => "zero",
        65534 => "65534",
        65535 => "65535",
        g if g & 1 == 1 => "odd",
        _ => "even",
    }
}

fn classify_rel(start: u16, g: u16) -> String {
    let d = g.wrapping_sub(start);
    if g == 0 {
        "ZERO".into()
    } else if d < 8 {
        format!("+{d}")
    } else {
        format!("={}", classify_gen(g))
    }
}

struct AObserver {
    st: Arc<Mutex<AState>>,
}

impl Observer for AObserver {
    fn on_event(&mut self, ev: &Event, v: &EngView<'_>) {
        let mut s = self.st.lock().unwrap_or_else(|e| e.into_inner());
        let role = v.thread_role(ev.tid);
        match ev.kind {
            EvKind::Kill => {
                s.kills += 1;
                // where the crash landed (evidence: every phase is hit)
                let phase = if s.new_active {
                    if s.wiped_this_inc { "fault.kill_phase.in_wipe" } else { "fault.kill_phase.in_new" }
                } else if s.w_active {
                    match s.w_gen_stores.len() {
                        0 => "fault.kill_phase.write_before_odd_store",
                        1 if s.w_field_stores == 0 => "fault.kill_phase.write_after_odd_store",
                        1 if s.w_field_stores < 8 => "fault.kill_phase.write_mid_record",
                        1 => "fault.kill_phase.write_before_even_store",
                        _ => "fault.kill_phase.write_after_even_store",
                    }
                } else {
                    "fault.kill_phase.between_operations"
                };
                s.out.probe(phase);
                s.hist(json!({"kill_pid": ev.a, "step": ev.step}));
            }
            EvKind::IoErr => {
                s.out.probe(&format!("fault.io_error.{}", ev.tag));
                s.hist(json!({"io_error": ev.tag, "errno": ev.a}));
            }
            EvKind::Sigbus => {
                let valid = s.valid_at_new_entry;
                if s.third_party {
                    s.out.probe("probe.sigbus_after_third_party_overwrite");
                    return;
                }
                s.out.violate(&["C04", "C16"], "sigbus", format!("valid_at_new_entry={valid}"), "an attached reader touched a page beyond the end of the backing file (the file was truncated under it): SIGBUS in production".into());
            }
            EvKind::Point if role == ROLE_WRITER => {
                for r in s.readers.iter_mut() {
                    if r.call.active {
                        r.call.writer_step_during = true;
                    }
                }
                if ev.tag == "new:probe" {
                    s.new_active = true;
                    s.wiped_in_new = false;
                    let path = s.path.clone();
                    let b = read_file_bytes(&path).unwrap_or_default();
                    s.valid_at_new_entry = documented_valid(&b) && b.len() >= P_TOTAL;
                    s.ino_at_entry = file_ino(&path);
                    s.bytes_at_entry = b;
                    let valid = s.valid_at_new_entry;
                    s.hist(json!({"writer_new": {"file_valid": valid}}));
                } else if ev.tag.starts_with("wipe:") {
                    s.out.probe(&format!("site.{}", ev.tag));
                    if s.valid_at_new_entry && s.new_active && !s.wiped_in_new {
                        s.wiped_in_new = true;
                        s.out.violate(&["C04"], "valid_segment_wiped", "at=wipe".into(), "ShmWriter::new started to wipe a segment that satisfied the documented validity predicate (must be taken over in place)".into());
                    }
                    if ev.tag == "wipe:create" {
                        // re-initialising an *unusable* file legitimately passes through generation 0;
                        // a segment that was valid (and published to) must never see 0 again (C11)
                        if !s.valid_at_new_entry {
                            s.seg_published = false;
                        }
                        s.wiped_this_inc = true;
                        // from here on the file is the daemon's own making: whatever a client can
                        // attach to and read must be a published record again (C02/C04a), even if the
                        // re-creation is interrupted
                        s.content_untrusted = false;
                        s.recreating = true;
                        s.model_gen = Some(0);
                        s.out.probe("probe.wipe_of_unusable_file");
                        if s.readers.iter().any(|r| r.call.active && r.call.gen_loads >= 1) {
                            s.out.probe("probe.wipe_during_client_copy");
                        }
                    }
                } else if ev.tag == "new:mmap" {
                    s.out.probe("site.new:mmap");
                }
            }
            EvKind::Store if role == ROLE_WRITER => {
                let loc = (ev.a & 0xff) as usize;
                let seg = (ev.a >> 8) as usize;
                for r in s.readers.iter_mut() {
                    if r.call.active {
                        r.call.writer_step_during = true;
                    }
                }
                if loc == LOC_GEN {
                    let g = ev.b as u16;
                    s.live_gen = Some(g);
                    if s.w_active {
                        s.w_gen_stores.push(g);
                    } else {
                        // the generation is the protocol's only synchronisation variable: outside an
                        // update nothing may move it (a crashed update stays odd until one completes)
                        s.out.violate(&["C11", "C04"], "generation_store_outside_update", format!("to={}", classify_gen(g)), format!("generation set to {g} outside of an update (in ShmWriter::new or elsewhere)"));
                    }
                    if g == 0 && s.seg_published {
                        s.out.violate(&["C11"], "generation_zero", "store".into(), "generation 0 stored into a segment that had been published to".into());
                    }
                } else if loc >= 3 {
                    if s.w_active {
                        s.w_field_stores += 1;
                    }
                    let g = v.newest(seg, LOC_GEN) as u16;
                    if g & 1 == 0 {
                        s.out.violate(&["C11"], "record_changed_while_even", format!("gen={}", classify_gen(g)), format!("record bytes modified while the generation was {g} (must be odd for the whole duration of an update)"));
                    }
                } else if loc == LOC_VERSION {
                    // end of ShmWriter::new
                    if s.new_active {
                        s.new_active = false;
                        if s.valid_at_new_entry {
                            // C04c: same inode, length not shrunk, bytes unchanged except version := 1
                            let path = s.path.clone();
                            let now = read_file_bytes(&path).unwrap_or_default();
                            let mut before = s.bytes_at_entry.clone();
                            let ino = file_ino(&path);
                            let mut after = now.clone();
                            if before.len() >= 14 && after.len() >= 14 {
                                before[12] = 0;
                                before[13] = 0;
                                after[12] = 0;
                                after[13] = 0;
                            }
                            // the version store itself has been performed in the model and in memory
                            let ver_ok = ev.b == 1;
                            let same_ino = ino == s.ino_at_entry;
                            if !same_ino || after.len() < before.len() || after[..before.len().min(after.len())] != before[..] || !ver_ok {
                                s.out.violate(&["C04"], "not_taken_over_in_place", format!("same_inode={} ver={}", same_ino, ev.b), "a valid segment was not taken over in place by ShmWriter::new (inode, length or content changed)".into());
                            } else {
                                s.out.probe("judged.in_place_takeover");
                            }
                        }
                    }
                }
            }
            EvKind::Import if (ev.a & 0xff) as usize == LOC_GEN => {
                s.live_gen = Some(ev.b as u16);
                if ev.b == 0 && s.seg_published {
                    s.out.violate(&["C11"], "generation_zero", "file_write".into(), "generation 0 written to a segment that had been published to".into());
                }
            }
            EvKind::Load if role == ROLE_WRITER => {
                for r in s.readers.iter_mut() {
                    if r.call.active {
                        r.call.writer_step_during = true;
                    }
                }
            }
            EvKind::Load if role == ROLE_READER && s.readers.iter().any(|r| r.open_active && r.tid == ev.tid) => {
                if let Some(r) = s.readers.iter_mut().find(|r| r.open_active && r.tid == ev.tid) {
                    r.open_loads += 1;
                }
            }
            EvKind::Load if role == ROLE_READER => {
                let loc = (ev.a & 0xff) as usize;
                let in_write = s.w_active && !s.w_gen_stores.is_empty();
                if let Some(r) = s.readers.iter_mut().find(|r| r.tid == ev.tid && r.call.active) {
                    r.call.loads += 1;
                    if loc == LOC_GEN {
                        r.call.gen_loads += 1;
                        r.call.last_gen_load = Some(ev.b as u16);
                        if r.call.first_gen.is_none() {
                            r.call.first_gen = Some(ev.b as u16);
                        }
                    }
                    if loc == 3 {
                        r.call.copies += 1;
                    }
                    if in_write {
                        s.reader_access_in_write = true;
                    }
                    if ev.c >> 32 != 0 {
                        s.out.probe("probe.reader_got_stale_value");
                    }
                }
            }
            _ => {}
        }
        // abstract state: (writer phase, generation class, #readers in call, cache relation)
        if matches!(ev.kind, EvKind::Load | EvKind::Store) && v.nsegs() > 0 {
            let seg = (ev.a >> 8) as usize;
            let g = v.newest(seg, LOC_GEN) as u16;
            let wphase = if s.new_active { 1 } else if s.w_active { 2 + s.w_gen_stores.len() as u64 } else if s.in_flight.is_some() { 5 } else { 0 };
            let gclass = match g {
                0 => 0,
                65533..=65535 => 3,
                g if g & 1 == 1 => 1,
                _ => 2,
            };
            let newest = s.newest_idx();
            let mut h = wphase * 16 + gclass;
            for r in &s.readers {
                let phase = if !r.opened { 0 } else if !r.call.active { 1 } else { 2 + (r.call.copies.min(2) as u64) + if r.call.gen_loads > 0 { 3 } else { 0 } };
                let rel = if r.last_idx < 0 { 0 } else if r.last_idx == newest { 1 } else { 2 };
                h = h * 64 + phase * 3 + rel;
            }
            s.out.states.insert(h);
        }
    }
}

// ------------------------------------------------------------------------------------------
// threads
// ------------------------------------------------------------------------------------------

fn err_kind(e: &ShmError) -> (u8, i32) {
    match e {
        ShmError::SyscallError(n, _) => (1, n.0),
        ShmError::SegmentNotInitialized => (2, 0),
        ShmError::SegmentMalformed => (3, 0),
        ShmError::CausalityBreach => (4, 0),
    }
}

fn err_name(k: u8) -> &'static str {
    match k {
        0 => "ok",
        1 => "syscall",
        2 => "not_initialized",
        3 => "malformed",
        _ => "causality",
    }
}

/// C16 open oracle: outcome of opening vs. the documented predicate on the bytes present.
fn judge_open(st: &Arc<Mutex<AState>>, path: &Path, api: &'static str, outcome: (u8, i32)) {
    let mut s = st.lock().unwrap();
    let is_dir = path.is_dir();
    let bytes = if is_dir { None } else { read_file_bytes(path) };
    s.out.probe("judged.open_attempts");
    let (kind, errno) = outcome;
    match (&bytes, is_dir) {
        (None, false) => {
            s.out.probe("probe.open_missing_file");
            if !(kind == 1 && errno == libc::ENOENT) {
                s.out.violate(&["C16"], "open_missing", format!("api={api} got={}", err_name(kind)), format!("{api} on a missing file returned {} errno {errno}, expected the failing system call with ENOENT", err_name(kind)));
            }
        }
        (_, true) => {
            s.out.probe("probe.open_directory");
            if !(kind == 1 && errno == libc::EISDIR) {
                s.out.violate(&["C16"], "open_directory", format!("api={api} got={}", err_name(kind)), format!("{api} on a directory returned {} errno {errno}, expected the failing system call with EISDIR", err_name(kind)));
            }
        }
        (Some(b), false) => {
            let valid = documented_valid(b);
            if !valid {
                s.out.probe("probe.open_invalid_content");
                s.out.nontrivial.insert("C16");
            }
            if valid && kind != 0 {
                s.out.violate(&["C16"], "open_rejected_valid", format!("api={api} got={}", err_name(kind)), format!("{api} rejected a segment satisfying the documented predicate: {} errno {errno}; header {:?}", err_name(kind), decode_segment(b)));
            }
            if !valid && kind == 0 {
                let h = decode_segment(b);
                let why = if b.len() < 16 { "short" } else if h.magic0 != P_MAGIC0 || h.magic1 != P_MAGIC1 { "magic" } else if h.version == 0 { "version0" } else if h.generation == 0 { "generation0" } else { "segsize" };
                s.out.violate(&["C16"], "open_accepted_invalid", format!("api={api} why={why}"), format!("{api} accepted a file violating the documented predicate ({why}): len {} header {:?}", b.len(), h));
            }
            if !valid && kind != 0 {
                // "malformed" is documented as *initialised but malformed*: it is applicable only when
                // magic, version and generation are in order; everything else is "not initialised"
                let h = decode_segment(b);
                let initialised = b.len() >= 16 && h.magic0 == P_MAGIC0 && h.magic1 == P_MAGIC1 && h.version != 0 && h.generation != 0;
                let want = if initialised { 3 } else { 2 };
                if kind != want {
                    s.out.violate(&["C16"], "open_wrong_kind", format!("api={api} got={} want={}", err_name(kind), err_name(want)), format!("{api} on invalid content (len {} header {:?}) returned {} errno {errno}, the documented kind is {}", b.len(), h, err_name(kind), err_name(want)));
                }
            }
        }
    }
}

fn open_via_client(path: &Path) -> (u8, i32) {
    match clock_bound_client::ClockBoundClient::new_with_path(path.to_str().unwrap()) {
        Ok(_c) => (0, 0),
        Err(e) => {
            let k = match e.kind {
                clock_bound_client::ClockBoundErrorKind::Syscall => 1,
                clock_bound_client::ClockBoundErrorKind::SegmentNotInitialized => 2,
                clock_bound_client::ClockBoundErrorKind::SegmentMalformed => 3,
                clock_bound_client::ClockBoundErrorKind::CausalityBreach => 4,
            };
            (k, e.errno.0)
        }
    }
}

fn open_via_ffi(path: &Path) -> (u8, i32) {
    use std::os::unix::ffi::OsStrExt;
    let c = CString::new(path.as_os_str().as_bytes()).unwrap();
    let mut err = clockbound::clockbound_err::default();
    let ctx = verif_rt::nokill(|| unsafe { clockbound::clockbound_open(c.as_ptr(), &mut err) });
    if ctx.is_null() {
        // the number a C caller sees, read against the numbering clockbound.h documents (0..4); a
        // value outside it is an undocumented kind
        let k = match err.kind as i32 {
            n @ 0..=4 => n as u8,
            _ => 9,
        };
        // a NULL context with kind NONE would be an undocumented failure
        (if k == 0 { 9 } else { k }, err.errno)
    } else {
        verif_rt::nokill(|| unsafe { clockbound::clockbound_close(ctx) });
        (0, 0)
    }
}

fn reader_thread(ri: usize, cfg: ReaderCfg, path: PathBuf, st: Arc<Mutex<AState>>, wake_rx: Option<verif_rt::mpsc::Receiver<()>>) {
    use std::os::unix::ffi::OsStrExt;
    let cpath = CString::new(path.as_os_str().as_bytes()).unwrap();
    verif_rt::sleep_ns(cfg.start_ns);
    let open = |tries: u32| -> Option<ShmReader> {
        for _ in 0..tries {
            st.lock().unwrap().open_begin(ri, verif_rt::current_tid());
            if cfg.probe_apis {
                let a = open_via_client(&path);
                judge_open(&st, &path, "ClockBoundClient::new_with_path", a);
                let b = open_via_ffi(&path);
                judge_open(&st, &path, "clockbound_open", b);
            }
            let r = ShmReader::new(&cpath);
            st.lock().unwrap().open_end(ri);
            let oc = match &r {
                Ok(_) => (0u8, 0),
                Err(e) => err_kind(e),
            };
            judge_open(&st, &path, "ShmReader::new", oc);
            verif_rt::mark("r:open", ri as u64, oc.0 as u64, oc.1 as u64);
            match r {
                Ok(r) => {
                    st.lock().unwrap().reader_opened(ri, verif_rt::current_tid());
                    return Some(r);
                }
                Err(_) => verif_rt::sleep_ns(cfg.retry_ns),
            }
        }
        None
    };
    let _ = verif_rt::run_process(ROLE_READER, || {
        let mut reader: Option<ShmReader> = None;
        if !cfg.reopen_each_call {
            reader = open(cfg.max_open_tries);
            if reader.is_none() {
                return;
            }
        }
        // make sure the attach count is released even if this process is killed (SIGBUS)
        struct Detach<'a>(&'a Arc<Mutex<AState>>, usize, bool);
        impl Drop for Detach<'_> {
            fn drop(&mut self) {
                if self.2 {
                    self.0.lock().unwrap_or_else(|e| e.into_inner()).reader_closed(self.1);
                }
            }
        }
        let mut guard = Detach(&st, ri, reader.is_some());
        for (ci, call) in cfg.calls.iter().enumerate() {
            if call.gap_ns > 0 {
                verif_rt::sleep_ns(call.gap_ns);
            }
            if ci == 1 && cfg.sleep_pubs > 0 {
                if let Some(rx) = &wake_rx {
                    let _ = rx.recv();
                }
            }
            if cfg.reopen_each_call {
                reader = open(cfg.max_open_tries.min(4));
                guard.2 = reader.is_some();
            }
            let Some(rd) = reader.as_mut() else { continue };
            if call.sync_before {
                verif_rt::shm::propagate_all();
            }
            st.lock().unwrap().call_begin(ri, call.sync_before);
            verif_rt::mark("r:begin", ri as u64, ci as u64, 0);
            let res = match rd.snapshot() {
                Ok(c) => Ok(decode_ceb(c)),
                Err(e) => Err(err_name(err_kind(&e).0).to_string()),
            };
            let code = match &res {
                Ok(r) => index_of(r).map(|i| (i + 2) as u64).unwrap_or(0),
                Err(_) => 1,
            };
            verif_rt::mark("r:end", ri as u64, ci as u64, code);
            let failed = res.is_err();
            st.lock().unwrap().call_end(ri, res);
            if ci == 0 && cfg.hammer > 0 {
                for _ in 0..cfg.hammer {
                    st.lock().unwrap().call_begin(ri, false);
                    let res = match rd.snapshot() {
                        Ok(c) => Ok(decode_ceb(c)),
                        Err(e) => Err(err_name(err_kind(&e).0).to_string()),
                    };
                    st.lock().unwrap().call_end(ri, res);
                }
                continue;
            }
            if failed && cfg.calls.len() > 8 && cfg.hammer == 0 {
                // flood profile: one exhausted retry budget is the scenario
                break;
            }
            if cfg.reopen_each_call {
                reader = None;
                guard.2 = false;
                st.lock().unwrap().reader_closed(ri);
            }
        }
        drop(reader);
    });
    st.lock().unwrap_or_else(|e| e.into_inner()).readers_finished += 1;
}

fn writer_host(cfg: ACfg, path: PathBuf, st: Arc<Mutex<AState>>, wake_tx: Option<verif_rt::mpsc::Sender<()>>) {
    let mut next_k: i64 = cfg.first_k.max(1);
    let mut rep_rng = Rng::new(cfg.hash_seed ^ 0x5EED);
    let sleep_pubs = cfg.readers.first().map(|r| r.sleep_pubs).unwrap_or(0);
    let burst = cfg.readers.first().map(|r| r.burst.max(1)).unwrap_or(1);
    let mut pubs_total = 0u32;
    for (i, inc) in cfg.incs.iter().enumerate() {
        if inc.corrupt_before != Corrupt::None {
            // external corruption is only applied while no client is attached (the properties
            // promise nothing to a client whose mapped file is overwritten by a third party)
            if inc.under_reader {
                // a third party damages the file while the first client is copying the record
                let mut polls = 0;
                loop {
                    {
                        let mut s = st.lock().unwrap();
                        let mid_call = s.readers.first().map(|r| r.call.active && r.call.gen_loads >= 1).unwrap_or(false);
                        if mid_call || polls > 3000 {
                            s.third_party = true;
                            if mid_call {
                                s.out.probe("probe.file_overwritten_during_client_copy");
                            }
                            break;
                        }
                    }
                    polls += 1;
                    verif_rt::sched_yield();
                }
            } else {
                while st.lock().unwrap().attached > 0 {
                    verif_rt::sleep_ns(40);
                }
            }
            {
                let mut s = st.lock().unwrap();
                s.corruptions += 1;
                s.seg_published = false;
                s.any_published = false;
                s.published.clear();
                s.in_flight = None;
                s.content_untrusted = !matches!(inc.corrupt_before, Corrupt::SetValid { .. });
                s.model_gen = match inc.corrupt_before { Corrupt::SetValid { gen } => Some(gen), _ => None };
                s.init_gen = s.model_gen;
                if !matches!(inc.corrupt_before, Corrupt::SetValid { .. }) {
                    s.out.nontrivial.insert("C16");
                }
                let c = corrupt_json(&inc.corrupt_before);
                s.hist(json!({"corrupt": c}));
            }
            apply_corruption(&path, &inc.corrupt_before);
            verif_rt::shm::files_changed();
            verif_rt::mark("env:corrupt", i as u64, 0, 0);
        }
        if inc.wait_calls > 0 {
            let mut polls = 0;
            while (st.lock().unwrap().readers.first().map(|r| r.calls_done).unwrap_or(u32::MAX)) < inc.wait_calls && polls < 2_000_000 {
                verif_rt::sleep_ns(2_000);
                polls += 1;
            }
        }
        st.lock().unwrap().inc_begin(i as u32);
        verif_rt::mark("inc:begin", i as u64, 0, 0);
        let was_valid = {
            let b = if path.is_dir() { None } else { read_file_bytes(&path) };
            b.map(|b| documented_valid(&b) && b.len() >= P_TOTAL).unwrap_or(false)
        };
        let exit = verif_rt::run_process(ROLE_WRITER, || {
            let mut w = match ShmWriter::new(&path) {
                Ok(w) => w,
                Err(e) => {
                    verif_rt::mark("new:err", e.raw_os_error().unwrap_or(0) as u64, 0, 0);
                    let mut s = st.lock().unwrap();
                    s.new_active = false;
                    s.out.probe("probe.writer_new_failed");
                    s.hist(json!({"writer_new_failed": format!("{e}")}));
                    return;
                }
            };
            verif_rt::mark("new:ok", 0, 0, 0);
            for j in 0..inc.writes {
                if inc.writes == u32::MAX && st.lock().unwrap().readers_finished as usize >= cfg.readers.len() {
                    break;
                }
                let k = if next_k > cfg.first_k.max(1) && rep_rng.chance(cfg.repeat_pct) {
                    // same content as the last record handed to write() (possibly one whose update was
                    // interrupted by a kill)
                    next_k - 1
                } else {
                    next_k += 1;
                    next_k - 1
                };
                st.lock().unwrap().write_begin(k);
                verif_rt::mark("w:begin", k as u64, 0, 0);
                w.write(&make_ceb(&rec_of(k)));
                verif_rt::mark("w:end", k as u64, 0, 0);
                st.lock().unwrap().write_end(k);
                pubs_total += 1;
                if j == 0 && !was_valid {
                    // C04c/C16: after start-up + first publication over an unusable file, a new
                    // client can attach and reads back exactly that record; the file is 72 bytes
                    use std::os::unix::ffi::OsStrExt;
                    let cpath = CString::new(path.as_os_str().as_bytes()).unwrap();
                    // (no oracle lock may be held across calls into the code under test)
                    let got: Result<PRecord, &'static str> = match ShmReader::new(&cpath) {
                        Ok(mut r) => match r.snapshot() {
                            Ok(c) => Ok(decode_ceb(c)),
                            Err(e) => Err(err_name(err_kind(&e).0)),
                        },
                        Err(e) => Err(err_name(err_kind(&e).0)),
                    };
                    let len = std::fs::metadata(&path).map(|m| m.len()).unwrap_or(0);
                    let mut s = st.lock().unwrap();
                    s.out.probe("judged.repair_then_attach");
                    match got {
                        Ok(r) if r == rec_of(k) => {}
                        Ok(r) => s.out.violate(&["C16", "C04"], "repair_readback", "mismatch".into(), format!("after repair and first publication a fresh reader obtained {r:?}, expected record {k}")),
                        Err(e) => s.out.violate(&["C16", "C04"], "repair_attach", format!("err={e}"), format!("after repair and first publication a fresh reader cannot attach or read: {e}")),
                    }
                    if s.wiped_this_inc && len != P_TOTAL as u64 {
                        s.out.violate(&["C16", "C17"], "recreated_size", format!("len={len}"), format!("re-created segment file is {len} bytes, documented layout is {P_TOTAL}"));
                    }
                }
                if sleep_pubs > 0 && pubs_total == burst + sleep_pubs {
                    if let Some(tx) = &wake_tx {
                        let _ = tx.send(());
                        // let the sleeper run before the trailing publication
                        verif_rt::sleep_ns(5_000);
                    }
                }
                if sleep_pubs > 0 && pubs_total == burst {
                    // give the reader time to take its first snapshot (and to finish hammering)
                    verif_rt::sleep_ns(5_000);
                    let hammer = cfg.readers.first().map(|r| r.hammer).unwrap_or(0);
                    let mut polls = 0;
                    while hammer > 0 && st.lock().unwrap().readers.first().map(|r| r.calls_done).unwrap_or(u32::MAX) < 1 + hammer && polls < 2_000_000 {
                        verif_rt::sleep_ns(100_000);
                        polls += 1;
                    }
                }
                if inc.write_gap_ns > 0 {
                    verif_rt::sleep_ns(inc.write_gap_ns);
                }
            }
        });
        let code = match exit {
            Exit::Returned(()) => 0,
            Exit::Killed => 2,
            Exit::Panicked(ref m) => {
                st.lock().unwrap().out.violate(&["C04", "C16"], "writer_panicked", "panic".into(), format!("writer incarnation {i} panicked: {m}"));
                1
            }
        };
        {
            let mut s = st.lock().unwrap();
            s.w_active = false;
            s.new_active = false;
            if code == 2 {
                s.out.probe("probe.writer_killed");
                if s.in_flight.is_some() {
                    s.out.probe("probe.writer_killed_mid_update");
                }
            }
        }
        verif_rt::mark("inc:end", i as u64, code, 0);
        if inc.gap_ns > 0 {
            verif_rt::sleep_ns(inc.gap_ns);
        }
    }
}

// ------------------------------------------------------------------------------------------
// one run
// ------------------------------------------------------------------------------------------

pub struct ARun {
    pub outcome: Outcome,
    pub report: verif_rt::RunReport,
}

pub fn run(cfg: &ACfg, run_seed: u64, replay: Option<Vec<u32>>, trace: bool, sandbox: &Path) -> ARun {
    let path = sandbox.join("seg").join("shm");
    let _ = std::fs::create_dir_all(sandbox.join("seg"));
    apply_corruption(&path, &cfg.init);
    let st = Arc::new(Mutex::new(AState::new(path.clone(), cfg.weak, cfg.readers.len())));
    st.lock().unwrap().content_untrusted = !matches!(cfg.init, Corrupt::None | Corrupt::SetValid { .. });
    if let Corrupt::SetValid { gen } = cfg.init {
        let mut s = st.lock().unwrap();
        s.model_gen = Some(gen);
        s.init_gen = Some(gen);
    }
    st.lock().unwrap().stable_file = matches!(cfg.init, Corrupt::SetValid { .. }) && cfg.incs.iter().all(|i| i.corrupt_before == Corrupt::None);
    let mut faults = Vec::new();
    for (i, inc) in cfg.incs.iter().enumerate() {
        if let Some(at) = inc.kill_at {
            faults.push(FaultSpec { role: ROLE_WRITER, incarnation: i as u32, class: FaultClass::Kill, at, arg: 0 });
        }
        if let Some((at, e)) = inc.io_err {
            faults.push(FaultSpec { role: ROLE_WRITER, incarnation: i as u32, class: FaultClass::IoErr, at, arg: e });
        }
    }
    let ecfg = verif_rt::Cfg {
        weak: cfg.weak,
        stale_ppm: cfg.stale_ppm,
        sched: if !cfg.script.is_empty() {
            verif_rt::Sched::Script { turns: cfg.script.clone(), then_switch_ppm: cfg.switch_ppm.max(50_000) }
        } else if !cfg.pingpong.is_empty() {
            verif_rt::Sched::PingPong { quanta: cfg.pingpong.clone() }
        } else if cfg.switch_ppm == 0 && cfg.pct_depth > 0 { verif_rt::Sched::Pct { depth: cfg.pct_depth, est_steps: 150 } } else { verif_rt::Sched::Random { switch_ppm: cfg.switch_ppm } },
        field_perm: cfg.field_perm,
        step_cost_ns: 10,
        max_steps: cfg.max_steps,
        faults,
        hash_seed: cfg.hash_seed,
        sandbox: sandbox.to_path_buf(),
        trace,
        preempts: cfg.preempts.iter().map(|p| verif_rt::Preempt { thread: p.0, store: p.1, loc: p.2, nth: p.3, run: p.4, steps: p.5 }).collect(),
        ..Default::default()
    };
    let mut procs = Vec::new();
    let sleeper = cfg.readers.first().map(|r| r.sleep_pubs > 0).unwrap_or(false);
    // the wake-up channel for the long sleeper is created inside the simulation by the host
    let chan: Arc<Mutex<Option<verif_rt::mpsc::Receiver<()>>>> = Arc::new(Mutex::new(None));
    {
        let (c2, p2, s2, ch) = (cfg.clone(), path.clone(), st.clone(), chan.clone());
        procs.push(verif_rt::ProcSpec {
            name: "host".into(),
            role: ROLE_HOST,
            f: Box::new(move || {
                let tx = if sleeper {
                    let (tx, rx) = verif_rt::mpsc::channel();
                    *ch.lock().unwrap() = Some(rx);
                    Some(tx)
                } else {
                    None
                };
                writer_host(c2, p2, s2, tx)
            }),
        });
    }
    for (ri, rc) in cfg.readers.iter().enumerate() {
        let (rc, p2, s2, ch) = (rc.clone(), path.clone(), st.clone(), chan.clone());
        procs.push(verif_rt::ProcSpec {
            name: format!("reader{ri}"),
            role: ROLE_HOST,
            f: Box::new(move || {
                let rx = if ri == 0 && sleeper {
                    // wait for the host to have created the channel
                    let mut got = None;
                    for _ in 0..1000 {
                        if let Some(rx) = ch.lock().unwrap().take() {
                            got = Some(rx);
                            break;
                        }
                        verif_rt::sleep_ns(10);
                    }
                    got
                } else {
                    None
                };
                reader_thread(ri, rc, p2, s2, rx)
            }),
        });
    }
    let report = verif_rt::run(verif_rt::RunSpec {
        seed: run_seed,
        cfg: ecfg,
        replay,
        observer: Some(Box::new(AObserver { st: st.clone() })),
        chrony: None,
        rt_off: None,
        procs,
        watchdog: std::time::Duration::from_secs(30),
    });
    let mut s = st.lock().unwrap();
    if s.cached_fd >= 0 {
        unsafe { libc::close(s.cached_fd) };
        s.cached_fd = -1;
    }
    let mut out = std::mem::take(&mut s.out);
    if s.reader_access_in_write {
        out.nontrivial.insert("C02");
        out.nontrivial.insert("C01");
        out.nontrivial.insert("C05");
        out.nontrivial.insert("C06");
        out.probe("probe.reader_access_between_stores_of_a_write");
    }
    if s.corruptions > 0 || !matches!(cfg.init, Corrupt::None | Corrupt::SetValid { .. }) {
        out.nontrivial.insert("C16");
    }
    out.probe_n("measure.max_loads_in_one_call", 0);
    let m = out.probes.entry("measure.max_loads_in_one_call".into()).or_insert(0);
    *m = (*m).max(s.max_loads_in_call);
    if report.counters.get("harness.model_real_mismatch").copied().unwrap_or(0) > 0 {
        out.harness_errors.push("memory model and real memory disagree in SC mode".into());
    }
    if report.hung {
        out.violate(&["C18"], "hang", "watchdog".into(), "the run stopped yielding (a thread spins without touching shared state)".into());
    }
    if report.budget_exhausted {
        let active: Vec<usize> = s.readers.iter().enumerate().filter(|(_, r)| r.call.active).map(|(i, _)| i).collect();
        let open_over: Vec<usize> = s.readers.iter().enumerate().filter(|(_, r)| r.open_active && r.open_loads > MAX_ACCESSES_PER_CALL).map(|(i, _)| i).collect();
        if !open_over.is_empty() {
            out.violate(&["C18"], "open_never_returned", "budget".into(), format!("step budget exhausted while reader(s) {open_over:?} were still opening the segment ({} accesses)", s.readers[open_over[0]].open_loads));
        }
        let opening = s.readers.iter().any(|r| r.open_active);
        let over: Vec<usize> = active.iter().copied().filter(|&i| s.readers[i].call.loads > MAX_ACCESSES_PER_CALL).collect();
        if !over.is_empty() {
            out.violate(&["C18"], "call_never_returned", "budget".into(), format!("step budget exhausted while snapshot() of reader(s) {over:?} was still running ({} accesses)", s.readers[over[0]].call.loads));
        } else if !active.is_empty() || opening {
            // a retry loop against a dead writer is legal but long: inconclusive at this budget
            out.probe("probe.run_truncated_by_step_budget_in_retry_loop");
        } else {
            out.harness_errors.push("step budget exhausted".into());
        }
    }
    if report.deadlock {
        out.harness_errors.push("deadlock in world A".into());
    }
    out.sample = Some(json!({"config": cfg.to_json(), "history": s.sample_hist}));
    ARun { outcome: out, report }
}

// ------------------------------------------------------------------------------------------
// shrinking, evidence texts
// ------------------------------------------------------------------------------------------

/// Simpler variants of a configuration, most aggressive first.
pub fn shrink(c: &ACfg) -> Vec<ACfg> {
    let mut out = Vec::new();
    if c.readers.len() > 1 {
        for i in 0..c.readers.len() {
            let mut d = c.clone();
            d.readers.remove(i);
            out.push(d);
        }
    }
    if c.incs.len() > 1 {
        let mut d = c.clone();
        d.incs.pop();
        out.push(d);
    }
    for i in 0..c.incs.len() {
        if c.incs[i].writes > 1 && c.incs[i].kill_at.is_none() {
            let mut d = c.clone();
            d.incs[i].writes -= 1;
            out.push(d);
        }
        if c.incs[i].io_err.is_some() {
            let mut d = c.clone();
            d.incs[i].io_err = None;
            out.push(d);
        }
    }
    for i in 0..c.readers.len() {
        if c.readers[i].calls.len() > 1 && c.readers[i].sleep_pubs == 0 {
            let mut d = c.clone();
            d.readers[i].calls.pop();
            out.push(d);
        }
        if c.readers[i].calls.iter().any(|x| x.gap_ns > 0) {
            let mut d = c.clone();
            for x in d.readers[i].calls.iter_mut() {
                x.gap_ns = 0;
            }
            out.push(d);
        }
    }
    if c.field_perm {
        let mut d = c.clone();
        d.field_perm = false;
        out.push(d);
    }
    out
}

pub fn rule_text(prop: &str) -> Option<String> {
    let common = "Cases are simulated runs: real ShmWriter incarnations (new/wipe/write, killed and restarted per a seeded fault plan) against 1-3 real ShmReader clients on one tmpfs file, every shared access a scheduling point decided by a seeded scheduler (random with swarm-chosen switch rate, or PCT), loads resolved by a view-based release/acquire memory model in weak profiles. Two runs are distinct when the hash of their sequence of (thread role, operation, location) differs. ";
    let nt = match prop {
        "C02" => "Non-trivial: at least one reader access executed between the first and last store of one write().",
        "C03" => "Non-trivial: a reader obtained at least two different records, or a call with no update in flight had to catch up from an older cached record.",
        "C04" => "Non-trivial: at least one writer kill fired and a reader afterwards obtained a record published by a restarted incarnation.",
        "C11" => "Non-trivial: at least one update ran to completion under the generation observer.",
        "C16" => "Non-trivial: an open was attempted on content violating the documented predicate, or a corruption/unusable initial file was injected before a writer start-up.",
        "C17" => "Non-trivial (world A part): at least one completed update whose file bytes were decoded with the offsets transcribed from PROTOCOL.md.",
        "C18" => "Non-trivial: a snapshot() call began while the generation was odd, or its retry loop iterated at least twice.",
        _ => return None,
    };
    Some(format!("{common}{nt}"))
}

pub fn real_components(prop: &str) -> Vec<&'static str> {
    let a = vec!["clock-bound-shm: ShmWriter::{new, is_usable_segment, wipe, mmap_segment_at, write, drop}", "clock-bound-shm: ShmReader::{new, snapshot}, ShmHeader::{read, is_valid}", "real tmpfs file, open/read/mmap/munmap/ftruncate"];
    let bb = vec![
        "clock-bound-d: thread_manager::run, channels, chrony_poller (ClockErrorBoundPoller, grace period, PHC file parser), shm_writer (ShmUpdater, FSM, extract_bound_from_tracking, process_messages)",
        "clock-bound-shm: ShmWriter, ShmReader, ClockErrorBound::{now, compute_bound_at}, clock_gettime_safe",
        "clock-bound-client: ClockBoundClient::{new, new_with_path, now}",
        "clock-bound-ffi: clockbound_open/now/close called from C code compiled against clockbound.h",
    ];
    match prop {
        "C02" | "C03" | "C11" | "C18" => a,
        "C04" | "C16" | "C17" => a.into_iter().chain(bb).collect(),
        _ => bb,
    }
}

pub fn stub_components(prop: &str) -> Vec<&'static str> {
    let a = vec!["OS scheduler (seeded baton scheduler)", "hardware memory ordering (view-based release/acquire model)", "process death (unwinding at a scheduling point; memory and file survive)"];
    let bb = vec![
        "chronyd (scripted peer behind blocking_query_uds)",
        "clock_gettime / Instant / SystemTime (virtual timeline, coarse tick, lag, failure)",
        "std::thread, std::sync::mpsc, HashMap hasher (simulated, seeded)",
        "oscillator and true time (world model)",
        "supervisor restarting the daemon",
        "not run: main(), CLI parsing, signal handling, real chrony wire protocol",
    ];
    match prop {
        "C02" | "C03" | "C11" | "C18" => a,
        "C04" | "C16" | "C17" => a.into_iter().chain(bb).collect(),
        _ => bb.into_iter().chain(a).collect(),
    }
}

pub fn assumptions(prop: &str) -> Vec<&'static str> {
    let mut v = vec![
        "sampling, not enumeration: a clean batch is evidence bounded by the counts in this file",
        "at most one writer process alive at a time (the code's documented assumption)",
        "racy plain accesses to the record are modelled as per-field relaxed atomics (8 fields)",
        "the memory model admits a subset of C11 release/acquire executions (no load buffering); SeqCst is modelled stronger than required",
        "hook lines (cfg aws_clock_bound_verif) shadow the read_volatile / ptr::write copy primitives themselves",
    ];
    if !matches!(prop, "C02" | "C03" | "C11" | "C18") {
        v.push("world premises hold by construction: chrony reports valid at their reply instant, oscillator drift within the configured rate measured against the host's monotonic clock");
        v.push("tmpfs semantics for the backing file; machine crash = file absent");
    }
    v
}
