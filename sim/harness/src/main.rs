//! cbsim — deterministic simulation of aws/clock-bound (see /verif/DESIGN.md).
//!
//!   cbsim check <ID> quick|thorough      run the check of one property (orchestrator)
//!   cbsim worker …                       (internal) run a range of seeds in this process
//!   cbsim replay <file>                  re-run a replay file; exit 1 iff the violation reproduces
//!   cbsim determinism [n]                run n seeds per world/profile twice and compare hashes
//!   cbsim selftest                       engine self-tests (litmus tests, timers, kill, replay)
//!   cbsim one <world> <profile> <seed> <index>   run one seed verbosely (debugging)

mod models;
mod orch;
mod selftest;
mod util;
mod world_a;
mod world_b;

use serde_json::Value;
use std::path::Path;

/// A world-independent handle on "one configured run".
#[derive(Clone)]
pub enum AnyCfg {
    A(world_a::ACfg),
    B(world_b::BCfg),
}

impl AnyCfg {
    pub fn to_json(&self) -> Value {
        match self {
            AnyCfg::A(c) => c.to_json(),
            AnyCfg::B(c) => c.to_json(),
        }
    }
    pub fn from_json(world: &str, v: &Value) -> AnyCfg {
        match world {
            "A" => AnyCfg::A(world_a::ACfg::from_json(v)),
            _ => AnyCfg::B(world_b::BCfg::from_json(v)),
        }
    }
    pub fn world(&self) -> &'static str {
        match self {
            AnyCfg::A(_) => "A",
            AnyCfg::B(_) => "B",
        }
    }
}

pub fn gen_cfg(world: &str, profile: &str, run_seed: u64, index: u64) -> AnyCfg {
    match world {
        "A" => AnyCfg::A(world_a::gen_config(world_a::Profile::parse(profile).expect("unknown world A profile"), run_seed, index)),
        "B" => AnyCfg::B(world_b::gen_config(world_b::Profile::parse(profile).expect("unknown world B profile"), run_seed, index)),
        _ => panic!("unknown world {world}"),
    }
}

pub fn exec(cfg: &AnyCfg, run_seed: u64, replay: Option<Vec<u32>>, trace: bool, sandbox: &Path) -> (util::Outcome, verif_rt::RunReport) {
    match cfg {
        AnyCfg::A(c) => {
            let r = world_a::run(c, run_seed, replay, trace, sandbox);
            (r.outcome, r.report)
        }
        AnyCfg::B(c) => {
            let r = world_b::run(c, run_seed, replay, trace, sandbox);
            (r.outcome, r.report)
        }
    }
}

pub fn run_seed_of(base_seed: u64, world: &str, profile: &str, index: u64) -> u64 {
    util::mix(util::mix(util::mix(base_seed, util::str_hash(world)), util::str_hash(profile)), index)
}

fn main() {
    verif_rt::install_panic_hook();
    let args: Vec<String> = std::env::args().collect();
    let code = match args.get(1).map(|s| s.as_str()) {
        Some("check") => orch::check(&args[2], args.get(3).map(|s| s.as_str()).unwrap_or("quick")),
        Some("worker") => orch::worker(&args[2..]),
        Some("replay") => orch::replay(&args[2]),
        Some("determinism") => orch::determinism(args.get(2).and_then(|s| s.parse().ok()).unwrap_or(200)),
        Some("selftest") => selftest::run(),
        Some("survey") => orch::survey(&args[2], &args[3], args.get(4).and_then(|s| s.parse().ok()).unwrap_or(2000)),
        Some("one") => orch::one(&args[2], &args[3], args[4].parse().unwrap(), args.get(5).and_then(|s| s.parse().ok()).unwrap_or(0)),
        _ => {
            eprintln!("usage: cbsim check <ID> quick|thorough | replay <file> | determinism [n] | selftest");
            2
        }
    };
    std::process::exit(code);
}
