//! The physical world and the scripted chronyd of world B.
//!
//! True time T(m) = m + t0 for monotonic instant m (the oscillator's drift is defined against the
//! host's own monotonic clock, DESIGN.md §3.4). CLOCK_REALTIME(m) = T(m) + e(m), where the clock
//! error e is a seeded piecewise-linear trajectory with |slope| <= the configured drift rate that
//! may jump towards zero at chronyd clock updates. Every synchronised report is valid at its
//! reply instant: |e(m_r)| <= |offset| + dispersion + delay/2 exactly on the reported values.

use super::cfg::BCfg;
use super::phc_refid_of;
use crate::models::{dyadic_of_f64, NS};
use crate::util::Rng;
use chrony_candm::common::{ChronyAddr, ChronyFloat};
use chrony_candm::reply::{Reply, ReplyBody, Status as CStatus, Tracking};
use std::path::PathBuf;
use std::sync::{Arc, Mutex};
use std::time::{Duration, SystemTime, UNIX_EPOCH};

const SEC: i64 = 1_000_000_000;

#[derive(Clone, Copy, Debug, PartialEq)]
pub enum Mode {
    /// synchronised: clock updates every interval, leap 0..2
    Sync,
    /// leap status 3
    Unsync,
    /// leap 0..2 but no clock updates any more (reference time ages)
    Stale,
    /// just restarted: leap 3, 1 s default delay/dispersion
    Restarting,
    /// request times out (3 tries x 1 s)
    Silent,
    /// socket gone: immediate error
    Gone,
    /// non-tracking reply
    NonTracking,
    /// out-of-range leap value
    BadLeap,
    /// reference time in the future
    FutureRef,
}

#[derive(Clone, Copy, Debug, PartialEq)]
pub enum PhcState {
    NotRead,
    Present(i64),
    Missing,
    Garbage,
    /// the path exists but cannot be read (it is a directory: EISDIR)
    Unreadable,
}

#[derive(Clone, Debug)]
pub struct TrackingInfo {
    pub leap: u16,
    pub ref_time_ns: i128,
    pub offset: f64,
    pub delay: f64,
    pub disp: f64,
    pub interval: f64,
    pub ref_id: u32,
}

#[derive(Clone, Debug)]
pub struct PollInfo {
    pub q_at: i64,
    pub r_at: i64,
    pub mode: Mode,
    pub tracking: Option<TrackingInfo>,
    pub phc: PhcState,
    pub err_at_reply: i64,
}

pub struct World {
    pub cfg: BCfg,
    rng: Rng,
    crng: Rng,
    d: i64,
    // oscillator segment
    seg_start: i64,
    seg_end: i64,
    /// clock error at `seg_start` in units of 10^-9 ns (exact: slope [ppb] x elapsed [ns])
    e_start_fp: i128,
    slope_ppb: i64,
    // chronyd
    pub mode: Mode,
    mode_end: i64,
    last_update_m: i64,
    ref_time_ns: i128,
    interval_s: f64,
    ref_matches: bool,
    pending_mode: Mode,
    pub polls: Vec<PollInfo>,
    pub phc_path: PathBuf,
    leap_cursor: u32,
    pub updates: u64,
    /// reply instant of the last tracking reply (start of the poller's grace period)
    last_good_reply: Option<i64>,
}

pub type SharedWorld = Arc<Mutex<World>>;

fn cf(x: f64) -> ChronyFloat {
    ChronyFloat::from(x)
}
fn f(x: ChronyFloat) -> f64 {
    f64::from(x)
}

/// exact value of a chrony float in ns, scaled by 2^64 (None outside the window used here)
fn scaled(x: f64) -> Option<i128> {
    let d = dyadic_of_f64(x);
    if d.m == 0 {
        return Some(0);
    }
    let sh = 64 + d.e;
    if !(0..=70).contains(&sh) || d.m.abs() >= (1 << 26) {
        return None;
    }
    Some(d.m * NS * (1i128 << sh))
}

impl World {
    pub fn new(cfg: &BCfg, sandbox: &std::path::Path) -> World {
        let mut rng = Rng::new(cfg.world_seed);
        let crng = Rng::new(rng.next());
        let d = cfg.drift_ppb as i64;
        let m0 = cfg.start_mono_ns;
        let flat = cfg.script == 5;
        let e0 = if flat { 0 } else { rng.range(-2_000_000, 2_000_000) };
        let mut w = World {
            cfg: cfg.clone(),
            rng,
            crng,
            d,
            seg_start: m0,
            seg_end: m0,
            e_start_fp: e0 as i128 * NS,
            slope_ppb: 0,
            mode: Mode::Sync,
            mode_end: m0,
            last_update_m: m0,
            ref_time_ns: 0,
            interval_s: 1.0,
            ref_matches: cfg.phc == 1 || cfg.phc == 3 || cfg.phc == 4,
            pending_mode: Mode::Sync,
            polls: Vec::new(),
            phc_path: sandbox.join("phc_error_bound"),
            leap_cursor: 0,
            updates: 0,
            last_good_reply: None,
        };
        w.interval_s = *w.crng.pick(&[1.0f64, 2.0, 4.0, 16.0, 64.0, 1.5, 0.25]);
        w.ref_time_ns = (m0 as i128 + cfg.t0_ns as i128 + e0 as i128) - w.crng.range(0, (w.interval_s * 1e9) as i64) as i128;
        w.last_update_m = m0;
        w.next_segment(m0);
        w.next_mode(m0, true);
        w
    }

    fn next_segment(&mut self, at: i64) {
        let e = self.err_fp(at);
        self.seg_start = at;
        self.e_start_fp = e;
        let flat = self.cfg.script == 5;
        self.slope_ppb = if flat {
            0
        } else {
            match self.rng.below(6) {
                0 | 1 => self.d,
                2 | 3 => -self.d,
                4 => 0,
                _ => self.rng.range(-self.d, self.d),
            }
        };
        self.seg_end = at + self.rng.range(200_000_000, 40 * SEC);
    }

    fn err_fp(&self, m: i64) -> i128 {
        let dt = (m - self.seg_start).max(0) as i128;
        self.e_start_fp + self.slope_ppb as i128 * dt
    }

    /// clock error in whole ns, truncated towards zero (never overstates the error)
    fn err_in_segment(&self, m: i64) -> i64 {
        (self.err_fp(m) / NS) as i64
    }

    fn next_mode(&mut self, at: i64, first: bool) {
        let r = &mut self.crng;
        // (mode, duration) by script style
        let (mode, dur) = match self.cfg.script {
            // healthy
            0 => (Mode::Sync, r.range(20, 600) * SEC),
            // outage-heavy: silences of 0.5 .. 30 s around the 5 s boundary
            2 => match r.below(10) {
                0..=3 => (Mode::Sync, r.range(2, 15) * SEC),
                4 | 5 => (Mode::Silent, *r.pick(&[SEC / 2, 2 * SEC, 4 * SEC, 5 * SEC, 6 * SEC, 9 * SEC, 30 * SEC])),
                6 | 7 => (Mode::Gone, *r.pick(&[SEC, 3 * SEC, 4 * SEC + SEC / 2, 5 * SEC, 5 * SEC + SEC / 2, 7 * SEC, 20 * SEC])),
                8 => (Mode::NonTracking, r.range(1, 8) * SEC),
                _ => (Mode::Unsync, r.range(1, 10) * SEC),
            },
            // cold start: begin in a non-synchronised mode
            3 if first => (*r.pick(&[Mode::Unsync, Mode::Stale, Mode::Silent, Mode::Gone, Mode::Restarting, Mode::NonTracking]), r.range(3, 40) * SEC),
            // leap sweep: alternate
            4 => match r.below(4) {
                0 => (Mode::BadLeap, r.range(2, 6) * SEC),
                1 => (Mode::Stale, r.range(4, 30) * SEC),
                2 => (Mode::FutureRef, r.range(1, 3) * SEC),
                _ => (Mode::Sync, r.range(2, 10) * SEC),
            },
            5 | 6 => (Mode::Sync, r.range(30, 600) * SEC),
            // epoch: a few seconds of synchronisation, then silence for the configured length
            7 if first => (Mode::Sync, r.range(4, 9) * SEC),
            7 => (Mode::Silent, (self.cfg.leap_base as i64 + 60) * SEC),
            // mixed
            _ => match r.below(20) {
                0..=9 => (Mode::Sync, r.range(3, 60) * SEC),
                10 | 11 => (Mode::Unsync, if r.chance(8) { r.range(900, 1700) * SEC } else { r.range(1, 30) * SEC }),
                12 | 13 => (Mode::Stale, if r.chance(8) { r.range(900, 1700) * SEC } else { r.range(5, 200) * SEC }),
                14 => (Mode::Restarting, r.range(1, 10) * SEC),
                15 => (Mode::Silent, r.range(1, 12) * SEC),
                16 => (Mode::Gone, r.range(1, 12) * SEC),
                17 => (Mode::NonTracking, r.range(1, 5) * SEC),
                18 => (Mode::BadLeap, r.range(1, 5) * SEC),
                _ => (Mode::FutureRef, r.range(1, 3) * SEC),
            },
        };
        self.mode = mode;
        self.mode_end = at + dur;
        if mode == Mode::Sync {
            self.interval_s = *self.crng.pick(&[1.0f64, 2.0, 4.0, 16.0, 64.0, 1.5, 0.25]);
            if self.cfg.phc == 1 || self.cfg.phc == 3 || self.cfg.phc == 4 {
                self.ref_matches = self.crng.chance(80);
            } else {
                self.ref_matches = false;
            }
        }
    }

    /// Process every world event up to monotonic instant `m`.
    pub fn advance_to(&mut self, m: i64) {
        loop {
            let next_upd = if self.mode == Mode::Sync { self.last_update_m + (self.interval_s * 1e9) as i64 } else { i64::MAX };
            let ev = self.seg_end.min(self.mode_end).min(next_upd);
            if ev > m {
                break;
            }
            if ev == next_upd {
                // chronyd updates the clock: the error may jump towards zero
                let e = self.err_fp(ev);
                let e2 = match self.rng.below(4) {
                    0 => 0,
                    1 => e / 4,
                    2 => e - e / 8,
                    _ => e,
                };
                self.seg_start = ev;
                self.e_start_fp = e2;
                self.last_update_m = ev;
                self.ref_time_ns = ev as i128 + self.cfg.t0_ns as i128 + e2 / NS;
                self.updates += 1;
            } else if ev == self.seg_end {
                self.next_segment(ev);
            } else {
                self.next_mode(ev, false);
                if self.mode == Mode::Sync {
                    // synchronisation (re)gained: an update happens right away
                    self.last_update_m = ev - (self.interval_s * 1e9) as i64;
                }
            }
        }
    }

    /// Clock error e(m) in ns.
    pub fn err_at(&mut self, m: i64) -> i64 {
        self.advance_to(m);
        self.err_in_segment(m)
    }

    /// CLOCK_REALTIME - CLOCK_MONOTONIC at instant m.
    pub fn rt_off(&mut self, m: i64) -> i64 {
        self.cfg.t0_ns + self.err_at(m)
    }

    fn valid_report(&mut self, e: i64) -> (f64, f64, f64) {
        let abs_e = e.unsigned_abs() as f64;
        let r = &mut self.crng;
        if self.cfg.script == 5 {
            // extremes for the formula: zeros, sub-ns fractions, large values, both signs
            let pickv = |r: &mut Rng| -> f64 {
                match r.below(9) {
                    0 => 0.0,
                    1 => 1e-9 * (r.below(1000) as f64) / 1000.0,
                    2 => 1e-9 * r.range(1, 5000) as f64 + 1e-10 * r.below(10) as f64,
                    3 => 1e-6 * r.range(1, 999) as f64,
                    4 => 1e-3 * r.range(1, 999) as f64,
                    5 => r.range(1, 1000) as f64,
                    6 => (1u64 << r.range(10, 29)) as f64,
                    7 => 2f64.powi(-(r.range(20, 40) as i32)),
                    _ => 1e-9 * r.range(1, 1_000_000) as f64,
                }
            };
            let sign = if r.chance(50) { -1.0 } else { 1.0 };
            return (sign * pickv(r), pickv(r), pickv(r));
        }
        let tight = r.chance(self.cfg.tight_pct);
        let slack = if tight {
            0.0
        } else {
            match r.below(3) {
                0 => r.range(1, 1_000) as f64,
                1 => r.range(1_000, 200_000) as f64,
                _ => r.range(200_000, 20_000_000) as f64,
            }
        };
        let total = abs_e + slack;
        let f1 = r.below(101) as f64 / 100.0;
        let f2 = (1.0 - f1) * (r.below(101) as f64 / 100.0);
        let sign = if r.chance(50) { -1.0 } else { 1.0 };
        let off = sign * total * f1 * 1e-9;
        let mut disp = total * f2 * 1e-9;
        let delay = 2.0 * total * (1.0 - f1 - f2).max(0.0) * 1e-9;
        // quantise and make sure the exact sum on the reported values covers |e|
        let need = (e.unsigned_abs() as i128) << 64;
        for _ in 0..200 {
            let (o, dl, dp) = (f(cf(off)), f(cf(delay)), f(cf(disp)));
            if let (Some(a), Some(b), Some(c)) = (scaled(o), scaled(dl), scaled(dp)) {
                if a.abs() + c + b / 2 >= need {
                    return (o, dl, dp);
                }
            }
            disp = disp * (1.0 + 1e-6) + 1e-10;
        }
        // fall back to a generous dispersion
        (f(cf(off)), f(cf(delay)), f(cf((abs_e + 1000.0) * 2e-9)))
    }

    fn write_phc(&mut self) -> PhcState {
        let st = match self.cfg.phc {
            1 | 2 => PhcState::Present(if self.crng.chance(30) { *self.crng.pick(&[0i64, 1, 777, 49_999, 1_000_000_000, 123_456_789_012]) } else { self.crng.range(0, 50_000) }),
            3 => match self.crng.below(10) {
                0..=4 => PhcState::Present(self.crng.range(0, 50_000)),
                5..=8 => PhcState::Missing,
                _ => PhcState::Garbage,
            },
            // a device that stays unreadable for long stretches
            4 => {
                if self.crng.chance(12) {
                    PhcState::Present(self.crng.range(0, 50_000))
                } else {
                    PhcState::Unreadable
                }
            }
            _ => PhcState::NotRead,
        };
        if st != PhcState::Unreadable && st != PhcState::NotRead && self.phc_path.is_dir() {
            let _ = std::fs::remove_dir_all(&self.phc_path);
        }
        match st {
            PhcState::Present(v) => {
                let _ = std::fs::write(&self.phc_path, format!("{v}\n"));
            }
            PhcState::Unreadable => {
                let _ = std::fs::remove_file(&self.phc_path);
                let _ = std::fs::create_dir_all(&self.phc_path);
            }
            PhcState::Missing => {
                let _ = std::fs::remove_file(&self.phc_path);
            }
            PhcState::Garbage => {
                let _ = std::fs::write(&self.phc_path, "not-a-number\n");
            }
            PhcState::NotRead => {}
        }
        st
    }
}

fn systime(ns: i128) -> SystemTime {
    if ns >= 0 {
        UNIX_EPOCH + Duration::new((ns / NS) as u64, (ns % NS) as u32)
    } else {
        let a = -ns;
        UNIX_EPOCH - Duration::new((a / NS) as u64, (a % NS) as u32)
    }
}

pub struct Chronyd(pub SharedWorld);

impl verif_rt::chrony::ChronySim for Chronyd {
    fn query(&mut self, now: i64, timeout_ns: i64, tries: u16) -> i64 {
        let mut w = self.0.lock().unwrap_or_else(|e| e.into_inner());
        w.advance_to(now);
        let mode = w.mode;
        w.pending_mode = mode;
        w.polls.push(PollInfo { q_at: now, r_at: now, mode, tracking: None, phc: PhcState::NotRead, err_at_reply: 0 });
        // place some failed polls exactly on the 5 s grace boundary (and 1 ns either side)
        if matches!(mode, Mode::Gone | Mode::NonTracking) && w.cfg.script == 2 && w.crng.chance(40) {
            if let Some(g) = w.last_good_reply {
                let target = g + 5_000_000_000 + *w.crng.pick(&[-1i64, 0, 0, 1]);
                let lat = target - now;
                if (1_000..2_900_000_000).contains(&lat) {
                    return lat;
                }
            }
        }
        match mode {
            // (chrony-candm compares its u16 attempt counter with n_tries after incrementing it:
            // zero tries means 65 536 attempts)
            Mode::Silent => timeout_ns * if tries == 0 { 65_536 } else { tries as i64 },
            Mode::Gone => w.crng.range(5_000, 200_000),
            _ => match w.crng.below(20) {
                0 => w.crng.range(100_000_000, 2_900_000_000),
                1 | 2 => w.crng.range(1_000_000, 100_000_000),
                _ => w.crng.range(50_000, 1_000_000),
            },
        }
    }

    fn reply(&mut self, now: i64) -> std::io::Result<Reply> {
        let mut w = self.0.lock().unwrap_or_else(|e| e.into_inner());
        let e = w.err_at(now);
        let mode = w.pending_mode;
        let idx = w.polls.len() - 1;
        w.polls[idx].r_at = now;
        w.polls[idx].err_at_reply = e;
        let rt_now = now as i128 + w.cfg.t0_ns as i128 + e as i128;
        let mk = |t: Tracking| Reply { status: CStatus::Success, cmd: 33, sequence: 0, body: ReplyBody::Tracking(t) };
        // fields the bound does not depend on vary freely (a report is more than three numbers)
        let mut fr = crate::util::Rng::new(w.crng.next());
        let stratum = *fr.pick(&[0u16, 1, 2, 3, 15, 16]);
        let ip = match fr.below(3) {
            0 => ChronyAddr::default(),
            1 => ChronyAddr::V4(std::net::Ipv4Addr::new(169, 254, 169, 123)),
            _ => ChronyAddr::Id(fr.next() as u32),
        };
        // reference ids a real chronyd shows: the PHC refclock, the `local` pseudo-reference
        // (127.127.1.1), an NTP server's IPv4 address, zero while unsynchronised
        let phc_refid = phc_refid_of(w.cfg.phc_name);
        let ref_id = if w.ref_matches { phc_refid } else { *fr.pick(&[0x7f000001u32, 0x7F7F0101, 0xA9FEA97B, 0, 0x47505300, 0x50484331]) };
        // (the source address is sometimes the reference id itself, as for NTP sources)
        let ip = if fr.chance(25) { ChronyAddr::V4(std::net::Ipv4Addr::from(ref_id)) } else { ip };
        let junk = [fr.range(-1000, 1000) as f64 * 1e-6, fr.range(-50, 50) as f64, fr.range(0, 100) as f64 * 1e-3, fr.range(-500, 500) as f64 * 1e-9];
        let base = |leap: u16, ref_time_ns: i128, off: f64, delay: f64, disp: f64, interval: f64, ref_id: u32| Tracking {
            ref_id,
            ip_addr: ip,
            stratum,
            leap_status: leap,
            ref_time: systime(ref_time_ns),
            current_correction: cf(off),
            last_offset: cf(junk[0]),
            rms_offset: cf(junk[3].abs()),
            freq_ppm: cf(junk[1]),
            resid_freq_ppm: cf(junk[2]),
            skew_ppm: cf(junk[2]),
            root_delay: cf(delay),
            root_dispersion: cf(disp),
            last_update_interval: cf(interval),
        };
        let info = |t: &Tracking, ref_ns: i128| TrackingInfo {
            leap: t.leap_status,
            ref_time_ns: ref_ns,
            offset: f(t.current_correction),
            delay: f(t.root_delay),
            disp: f(t.root_dispersion),
            interval: f(t.last_update_interval),
            ref_id: t.ref_id,
        };
        match mode {
            Mode::Silent => Err(std::io::Error::new(std::io::ErrorKind::TimedOut, "no reply from chronyd")),
            Mode::Gone => Err(std::io::Error::new(std::io::ErrorKind::NotFound, "chronyd socket is gone")),
            Mode::NonTracking => Ok(Reply { status: CStatus::Success, cmd: 14, sequence: 0, body: ReplyBody::Null }),
            Mode::Sync | Mode::Stale | Mode::BadLeap | Mode::FutureRef => {
                // when the PHC is chronyd's reference, what chronyd reports is relative to the PHC,
                // whose own error (up to the device's error bound) comes on top
                let phc_pre = if ref_id == phc_refid_of(w.cfg.phc_name) && w.cfg.phc != 0 { Some(w.write_phc()) } else { None };
                let e_rep = match phc_pre {
                    Some(PhcState::Present(v)) if v > 0 => {
                        let m = (e.unsigned_abs() as i64).saturating_sub(v).max(0);
                        if e < 0 {
                            -m
                        } else {
                            m
                        }
                    }
                    _ => e,
                };
                let (mut off, mut delay, mut disp) = w.valid_report(e_rep);
                if mode == Mode::Sync && w.cfg.script != 5 && e_rep.unsigned_abs() < 1_000_000_000 && w.crng.chance(3) {
                    // chronyd's start-up defaults (1 s of root delay and dispersion) under a
                    // synchronised leap status: generous, hence valid, and to be used like any other
                    delay = 1.0;
                    disp = 1.0;
                    off = *w.crng.pick(&[0.0f64, -0.25, 0.125]);
                }
                let mut interval = w.interval_s;
                if w.cfg.script == 4 && w.crng.chance(12) {
                    // what chronyd *reports* as its update interval need not be a sane positive number
                    interval = *w.crng.pick(&[0.0f64, -0.5, -8.0, f64::NAN, 1e-3, 0.124, 1e6]);
                }
                let mut ref_ns = w.ref_time_ns;
                let mut leap = *w.crng.pick(&[0u16, 0, 0, 1, 2]);
                if w.cfg.script == 4 && mode == Mode::Stale {
                    // place the age on both sides of the eight-interval threshold
                    let thr = (interval * 8.0 * 1e9) as i128;
                    let delta = *w.crng.pick(&[-2_000_000_000i128, -1_000_000_001, -999_999_999, -1, 0, 1, 999_999_999, 1_000_000_001, 3_000_000_000]);
                    ref_ns = rt_now - (thr + delta).max(0);
                }
                if mode == Mode::Stale && w.crng.chance(8) {
                    // a chronyd that has never had a reference, yet claims a synchronised leap status
                    ref_ns = *w.crng.pick(&[0i128, 0, 1, 999_999_999, 1_000_000_000]);
                    let cur = w.interval_s;
                    interval = *w.crng.pick(&[0.0f64, 0.0, cur]);
                }
                if mode == Mode::BadLeap {
                    leap = if w.cfg.script == 4 {
                        let v = (w.cfg.leap_base + w.leap_cursor) % 65536;
                        w.leap_cursor += 1;
                        v as u16
                    } else {
                        *w.crng.pick(&[4u16, 5, 255, 256, 65535, 3])
                    };
                }
                if mode == Mode::FutureRef {
                    ref_ns = rt_now + *w.crng.pick(&[1i128, 1_000, 1_000_000_000, 10_000_000_000]);
                    // (a reference time in the future is Unknown whatever the leap status says)
                    if w.crng.chance(35) {
                        leap = *w.crng.pick(&[3u16, 3, 4, 255]);
                    }
                }
                let t = base(leap, ref_ns, off, delay, disp, interval, ref_id);
                let phc = phc_pre.unwrap_or(PhcState::NotRead);
                w.polls[idx].tracking = Some(info(&t, ref_ns));
                w.polls[idx].phc = phc;
                w.last_good_reply = Some(now);
                Ok(mk(t))
            }
            Mode::Unsync | Mode::Restarting => {
                let (delay, disp) = if mode == Mode::Restarting { (1.0, 1.0) } else { (w.crng.range(1, 100) as f64 * 1e-4, w.crng.range(1, 100) as f64 * 1e-3) };
                let ref_ns = if mode == Mode::Restarting { 0 } else { w.ref_time_ns };
                let t = base(3, ref_ns, 0.0, delay, disp, w.interval_s, ref_id);
                let phc = if ref_id == phc_refid_of(w.cfg.phc_name) && w.cfg.phc != 0 { w.write_phc() } else { PhcState::NotRead };
                w.polls[idx].tracking = Some(info(&t, ref_ns));
                w.polls[idx].phc = phc;
                w.last_good_reply = Some(now);
                Ok(mk(t))
            }
        }
    }
}
