//! World B threads and the run function.

use super::cfg::{BCfg, CCfg};
use super::oracle::{BObserver, BState, CallResult, SharedB};
use super::world::{Chronyd, SharedWorld, World};
use super::{phc_refid_of, PHC_NAMES, ROLE_CLIENT, ROLE_DAEMON, ROLE_HOST, ROLE_PUB};
use crate::models::{ts_ns, NS};
use crate::util::*;
use crate::world_a::{apply_corruption, Corrupt};
use clock_bound_shm::{ShmError, ShmReader, ShmWrite, ShmWriter};
use serde_json::json;
use std::ffi::{c_char, c_void, CStr, CString};
use std::path::{Path, PathBuf};
use std::sync::{Arc, Mutex};
use verif_rt::{Exit, FaultClass, FaultSpec};

const SEC: i64 = 1_000_000_000;

#[repr(C)]
struct CshimResult {
    ok: i64,
    err_kind: i64,
    sys_errno: i64,
    has_detail: i64,
    detail: [c_char; 64],
    earliest_sec: i64,
    earliest_nsec: i64,
    latest_sec: i64,
    latest_nsec: i64,
    status: i64,
}

extern "C" {
    fn cshim_open(path: *const c_char, r: *mut CshimResult) -> *mut c_void;
    fn cshim_now(ctx: *mut c_void, r: *mut CshimResult);
    fn cshim_close(ctx: *mut c_void) -> i64;
    fn cshim_constants(out: *mut i64);
    fn cshim_open_null_err(path: *const c_char) -> i64;
}

/// keep the FFI crate's exported symbols alive for the C shim
#[used]
static KEEP: [usize; 0] = [];
fn keep_ffi_symbols() -> usize {
    clockbound::clockbound_open as usize ^ clockbound::clockbound_now as usize ^ clockbound::clockbound_close as usize
}

fn cres(r: &CshimResult) -> CallResult {
    if r.ok == 1 {
        CallResult::Ok { earliest: ts_ns(r.earliest_sec, r.earliest_nsec), latest: ts_ns(r.latest_sec, r.latest_nsec), status: r.status as i32 }
    } else {
        let detail = if r.has_detail != 0 { unsafe { CStr::from_ptr(r.detail.as_ptr()) }.to_string_lossy().into_owned() } else { String::new() };
        CallResult::Err { kind: r.err_kind as u8, errno: r.sys_errno as i32, detail }
    }
}

fn shm_err(e: &ShmError) -> CallResult {
    match e {
        ShmError::SyscallError(n, d) => CallResult::Err { kind: 1, errno: n.0, detail: d.to_string_lossy().into_owned() },
        ShmError::SegmentNotInitialized => CallResult::Err { kind: 2, errno: 0, detail: String::new() },
        ShmError::SegmentMalformed => CallResult::Err { kind: 3, errno: 0, detail: String::new() },
        ShmError::CausalityBreach => CallResult::Err { kind: 4, errno: 0, detail: String::new() },
    }
}

fn client_err(e: &clock_bound_client::ClockBoundError) -> CallResult {
    use clock_bound_client::ClockBoundErrorKind as K;
    let kind = match e.kind {
        K::Syscall => 1,
        K::SegmentNotInitialized => 2,
        K::SegmentMalformed => 3,
        K::CausalityBreach => 4,
    };
    CallResult::Err { kind, errno: e.errno.0, detail: e.detail.clone() }
}

fn status_i(s: clock_bound_shm::ClockStatus) -> i32 {
    match s {
        clock_bound_shm::ClockStatus::Unknown => 0,
        clock_bound_shm::ClockStatus::Synchronized => 1,
        clock_bound_shm::ClockStatus::FreeRunning => 2,
    }
}

fn tspec(t: nix::sys::time::TimeSpec) -> i128 {
    ts_ns(t.tv_sec(), t.tv_nsec())
}

enum Client {
    Rust(clock_bound_client::ClockBoundClient),
    Raw(ShmReader),
    C(*mut c_void),
}

impl Client {
    fn open(kind: u8, path: &Path) -> Result<Client, CallResult> {
        use std::os::unix::ffi::OsStrExt;
        match kind {
            0 => clock_bound_client::ClockBoundClient::new().map(Client::Rust).map_err(|e| client_err(&e)),
            1 => clock_bound_client::ClockBoundClient::new_with_path(path.to_str().unwrap()).map(Client::Rust).map_err(|e| client_err(&e)),
            2 => {
                let c = CString::new(path.as_os_str().as_bytes()).unwrap();
                ShmReader::new(&c).map(Client::Raw).map_err(|e| shm_err(&e))
            }
            _ => {
                let c = CString::new(path.as_os_str().as_bytes()).unwrap();
                let mut r: CshimResult = unsafe { std::mem::zeroed() };
                let ctx = verif_rt::nokill(|| unsafe { cshim_open(c.as_ptr(), &mut r) });
                if ctx.is_null() {
                    Err(cres(&r))
                } else {
                    Ok(Client::C(ctx))
                }
            }
        }
    }

    /// Returns the result and, for the raw kind, the record that was used.
    fn now(&mut self) -> (CallResult, Option<PRecord>) {
        match self {
            Client::Rust(c) => match c.now() {
                Ok(r) => (CallResult::Ok { earliest: tspec(r.earliest), latest: tspec(r.latest), status: status_i(r.clock_status) }, None),
                Err(e) => (client_err(&e), None),
            },
            Client::Raw(r) => match r.snapshot() {
                Ok(ceb) => {
                    let ceb = *ceb;
                    let rec = decode_ceb(&ceb);
                    match ceb.now() {
                        Ok((e, l, s)) => (CallResult::Ok { earliest: ts_ns(e.tv_sec, e.tv_nsec), latest: ts_ns(l.tv_sec, l.tv_nsec), status: status_i(s) }, Some(rec)),
                        Err(e) => (shm_err(&e), Some(rec)),
                    }
                }
                Err(e) => (shm_err(&e), None),
            },
            Client::C(ctx) => {
                let mut r: CshimResult = unsafe { std::mem::zeroed() };
                verif_rt::nokill(|| unsafe { cshim_now(*ctx, &mut r) });
                (cres(&r), None)
            }
        }
    }
}

impl Drop for Client {
    fn drop(&mut self) {
        if let Client::C(ctx) = self {
            verif_rt::nokill(|| unsafe { cshim_close(*ctx) });
        }
    }
}

fn guarded_now(c: &mut Client) -> (CallResult, Option<PRecord>) {
    match std::panic::catch_unwind(std::panic::AssertUnwindSafe(|| c.now())) {
        Ok(r) => r,
        Err(p) => {
            if p.is::<verif_rt::Killed>() {
                std::panic::resume_unwind(p);
            }
            (CallResult::Panicked(verif_rt::take_last_panic().unwrap_or_else(|| verif_rt::panic_message(&p))), None)
        }
    }
}

fn client_thread(ci: usize, cc: CCfg, cfg: BCfg, path: PathBuf, st: SharedB, seed: u64) {
    let mut r = Rng::new(seed);
    let end = cfg.start_mono_ns + cfg.horizon_ns;
    verif_rt::sleep_ns(cc.start_ns);
    let _ = verif_rt::run_process(ROLE_CLIENT, || {
        st.lock().unwrap().client_register(ci, verif_rt::current_tid());
        let mut client = loop {
            match Client::open(cc.kind, &path) {
                Ok(c) => break c,
                Err(_) => {
                    if verif_rt::now_ns() + SEC >= end {
                        return;
                    }
                    verif_rt::sleep_ns(r.range(100_000_000, 900_000_000));
                }
            }
        };
        for _ in 0..cc.calls {
            // choose the instant: biased to the thresholds of the newest record
            let now = verif_rt::now_ns();
            let tick = cfg.tick_ns.max(1);
            let fallback = now + *r.pick(&[1_000_000i64, 30_000_000, 400_000_000, 900_000_000, 1_300_000_000, 3 * SEC]) + r.range(0, 5_000_000);
            let mut target = fallback;
            if r.chance(cc.threshold_pct) {
                let last = st.lock().unwrap().pubs.last().map(|p| p.rec);
                if let Some(rec) = last {
                    let as_of = (rec.as_of_s as i128 * NS + rec.as_of_ns as i128) as i64;
                    let void = (rec.void_s as i128 * NS + rec.void_ns as i128).min(i64::MAX as i128) as i64;
                    let thr = *r.pick(&[as_of + 5 * SEC, as_of + 5 * SEC, void, as_of + SEC, as_of + 4 * SEC]);
                    let off = *r.pick(&[-tick, -1, 0, 1, tick, -tick / 2, tick / 2, -2 * tick]);
                    let t = thr + off;
                    if t > now && t < end - SEC / 2 {
                        target = t;
                    }
                }
            }
            if target >= end {
                break;
            }
            verif_rt::sleep_until(target);
            st.lock().unwrap().call_begin(ci);
            verif_rt::mark("c:begin", ci as u64, 0, 0);
            let (res, rec) = guarded_now(&mut client);
            verif_rt::mark("c:end", ci as u64, matches!(res, CallResult::Ok { .. }) as u64, 0);
            st.lock().unwrap().call_end(ci, cc.kind, rec, res, true);
        }
    });
}

fn supervisor(cfg: BCfg, phc: Option<clock_bound_d::PhcInfo>, st: SharedB, path: PathBuf) {
    let end = cfg.start_mono_ns + cfg.horizon_ns;
    for (i, d) in cfg.daemon.iter().enumerate() {
        if verif_rt::now_ns() >= end {
            break;
        }
        if d.delete_before {
            // the runtime directory is cleaned up while the daemon is down: the next daemon creates
            // a new file; clients keep the old one mapped
            st.lock().unwrap().file_removed();
            let _ = std::fs::remove_file(&path);
            verif_rt::shm::files_changed();
            verif_rt::mark("env:delete", i as u64, 0, 0);
            st.lock().unwrap().out.probe("fault.segment_file_removed_between_incarnations");
        }
        if d.damage_before {
            // third-party damage: one magic word of the segment file is overwritten in place
            // (attached clients keep their mapping; the daemon will find the file unusable)
            st.lock().unwrap().damaged_ever = true;
            apply_corruption(&path, &Corrupt::SetField { field: (i % 2) as u8, value: 0xDEAD_0000 | i as u32 });
            verif_rt::shm::files_changed();
            verif_rt::mark("env:damage", i as u64, 0, 0);
            st.lock().unwrap().out.probe("fault.third_party_header_damage");
        }
        let phc2 = phc.clone();
        let drift = cfg.drift_ppb;
        verif_rt::mark("daemon:start", i as u64, 0, 0);
        let exit = verif_rt::run_process(ROLE_DAEMON, move || clock_bound_d::thread_manager::run(drift, phc2));
        let code = match exit {
            Exit::Returned(()) => 0,
            Exit::Killed => 2,
            Exit::Panicked(m) => {
                st.lock().unwrap().out.violate(&["C15"], "daemon_main_panicked", "panic".into(), format!("thread_manager::run panicked: {m}"));
                1
            }
        };
        verif_rt::mark("daemon:end", i as u64, code, 0);
        verif_rt::sleep_ns(d.restart_delay_ns.max(1_000_000));
    }
}

/// Synthetic publisher + the three client kinds in one thread: exact placement of the clock
/// readings relative to the record's thresholds (time only advances in `sleep`).
fn synthetic_thread(cfg: BCfg, path: PathBuf, st: SharedB, world: SharedWorld, seed: u64) {
    let mut r = Rng::new(seed);
    let _ = verif_rt::run_process(ROLE_PUB, || {
        let mut w = match ShmWriter::new(&path) {
            Ok(w) => w,
            Err(e) => {
                st.lock().unwrap().out.harness_errors.push(format!("synthetic publisher cannot create the segment: {e}"));
                return;
            }
        };
        st.lock().unwrap().client_register(0, verif_rt::current_tid());
        let mut clients: Vec<(u8, Client)> = Vec::new();
        let tick = cfg.tick_ns.max(1);
        for _case in 0..cfg.synthetic_cases {
            verif_rt::sleep_ns(*r.pick(&[1i64, 1_000, 999_999, 1_000_000, 123_456_789, 7 * SEC, 3_600 * SEC]) + r.range(0, 1_000_000_000));
            // land the monotonic reading on / just before a whole second: as_of values just above it
            // then have a tiny tv_nsec, and with a 1 ns tick the blur window crosses the second boundary
            let mut before_second: i64 = 0;
            if r.chance(20) {
                let now0 = verif_rt::now_ns();
                let delta = if tick == 1 { *r.pick(&[0i64, 1, 400, 998]) } else { 0 };
                let next = (now0.div_euclid(SEC) + 1) * SEC - delta;
                verif_rt::sleep_until(next);
                before_second = delta;
            }
            let now = verif_rt::now_ns();
            let mono = now.div_euclid(tick) * tick;
            let rs = r.range(5, 5000) * SEC + r.range(0, 999_999_999);
            let mut span: i64 = *r.pick(&[5 * SEC, 5 * SEC + 1, 6 * SEC, 1000 * SEC, 1000 * SEC, rs]);
            if r.chance(6) {
                // records no daemon writes: void-after before, at or just after as-of (C14 speaks of
                // all records; C06 only of those whose void-after is at least 5 s after as-of)
                span = *r.pick(&[0i64, 1, -1, -1_001, -5 * SEC, -3_600 * SEC, 4 * SEC, 999]);
            }
            // age = mono - as_of
            let age: i64 = match r.below(15) {
                // just past the wrap-around points of narrow time representations (u32/i32 us, u16 s, u32/i32 ms)
                14 => *r.pick(&[4_294_967_296_000i64, 2_147_483_648_000, 65_536 * SEC, 4_294_967_296_000_000, 2_147_483_648_000_000, 16_777_216 * SEC]) + *r.pick(&[0i64, 1, 999_999_999, 2 * SEC, 4 * SEC + 999_999_999, 6 * SEC, 400 * SEC]),
                0 => 0,
                1 => *r.pick(&[1i64, 999, 1000, 1001, 2000]),
                2 => -*r.pick(&[1i64, 500, 999, 1000, 1001, 2000, 1_000_000, 10_000_001, 4 * SEC]),
                3 => *r.pick(&[5 * SEC - 1, 5 * SEC, 5 * SEC + 1, 5 * SEC - tick, 5 * SEC + tick]),
                4 => span + *r.pick(&[-1i64, 0, 1, -tick, tick]),
                5 => r.range(0, 999_999_999),
                6 => r.range(1, 100) * 3_600 * SEC + r.range(0, 999_999_999),
                7 => r.range(1, 5000) * tick,
                8 => r.range(1, 4) * SEC + r.range(0, 999_999_999),
                9 => r.range(5, 1000) * SEC + r.range(0, 999_999_999),
                10 => -r.range(1, 2_000),
                _ => r.range(0, 2_000 * SEC),
            };
            // with clocks that advance on every read: put the edge of the causality blur between two
            // consecutive monotonic readings of one of the calls that follow
            let cost = cfg.clock_read_cost_ns;
            let age = if cost > 0 && tick == 1 && r.chance(40) { -(1000 + r.range(1, 9) * cost + 1 + r.below(cost as u64) as i64) } else { age };
            let age = if before_second > 0 && r.chance(60) { -(before_second + *r.pick(&[1i64, 1, 300])).min(999).max(before_second + 1) } else { age };
            let as_of = mono as i128 - age as i128;
            let void = as_of + span as i128;
            let bound: i64 = match r.below(8) {
                // (negative bounds are outside the meaningful range of C05; they are published so that
                // the libraries can be compared on every value the i64 field can carry, C17)
                7 => -*r.pick(&[1i64, 1_000, 3_000_000_000]),
                0 => 0,
                1 => 1,
                2 => r.range(0, 1_000_000),
                3 => r.range(0, 1_000_000_000_000),
                4 => (1i64 << 60) - 1 - r.range(0, 1000),
                5 => 1i64 << r.range(20, 59),
                _ => r.range(0, 100_000_000),
            };
            let drift: u32 = match r.below(10) {
                0 => 0,
                1 => 1,
                2 => 1_000,
                3 => 50_000,
                4 => 999_999_999,
                5 => *r.pick(&[1_000_000_000u32, 1_000_000_001, u32::MAX, 2_000_000_000]),
                6 => r.range(0, 999_999_999) as u32,
                _ => r.range(0, 1_000_000) as u32,
            };
            let rec = PRecord {
                as_of_s: as_of.div_euclid(NS) as i64,
                as_of_ns: as_of.rem_euclid(NS) as i64,
                void_s: void.div_euclid(NS) as i64,
                void_ns: void.rem_euclid(NS) as i64,
                bound,
                drift,
                reserved: r.next() as u32,
                status: r.below(3) as i32,
            };
            // the case is part of what makes two synthetic runs distinct
            verif_rt::mark("fp:case", age as u64, ((rec.bound as u64) << 2) ^ rec.status as u64, ((rec.drift as u64) << 32) ^ span as u64);
            w.write(&make_ceb(&rec));
            st.lock().unwrap().set_synthetic_record(rec);
            let _ = world.lock().map(|mut w| w.advance_to(now));
            if clients.is_empty() {
                for k in [2u8, 1, 3] {
                    match Client::open(k, &path) {
                        Ok(c) => clients.push((k, c)),
                        Err(e) => st.lock().unwrap().out.violate(&["C16"], "open_after_publication_failed", format!("kind={k}"), format!("client kind {k} cannot open the segment after a publication: {e:?}")),
                    }
                }
            }
            let mut results = Vec::new();
            for (k, c) in clients.iter_mut() {
                st.lock().unwrap().call_begin(0);
                let (res, used) = guarded_now(c);
                if let Some(u) = used {
                    if u != rec {
                        st.lock().unwrap().out.violate(&["C03", "C17"], "synthetic_readback", "mismatch".into(), format!("raw reader obtained {u:?} right after {rec:?} was published"));
                    }
                }
                results.push((*k, res.clone()));
                st.lock().unwrap().call_end(0, *k, Some(rec), res, false);
            }
            // C17: all client libraries agree on the same segment at the same (frozen) instant
            let first = results[0].1.clone();
            // (only meaningful when the three calls saw the same instant)
            for (k, res) in results[1..].iter().filter(|_| cost == 0) {
                let mut s = st.lock().unwrap();
                s.out.probe("judged.cross_library_comparisons");
                s.out.nontrivial.insert("C17");
                if !same_result(&first, res) {
                    s.out.violate(&["C17"], "libraries_disagree", format!("kind={k}"), format!("raw law result {first:?} vs client kind {k} result {res:?} for record {rec:?}"));
                }
            }
        }
        drop(clients);
    });
}

fn same_result(a: &CallResult, b: &CallResult) -> bool {
    match (a, b) {
        (CallResult::Ok { earliest: e1, latest: l1, status: s1 }, CallResult::Ok { earliest: e2, latest: l2, status: s2 }) => e1 == e2 && l1 == l2 && s1 == s2,
        (CallResult::Err { kind: k1, errno: n1, detail: d1 }, CallResult::Err { kind: k2, errno: n2, detail: d2 }) => k1 == k2 && n1 == n2 && d1 == d2,
        _ => false,
    }
}

/// Paired observations (C17): Rust client and C client, fresh open + now + close each, inside one
/// frozen simulator step.
fn pairs_thread(cfg: BCfg, path: PathBuf, st: SharedB, seed: u64) {
    let mut r = Rng::new(seed);
    let end = cfg.start_mono_ns + cfg.horizon_ns;
    let _ = verif_rt::run_process(ROLE_CLIENT, || {
        // the header's enumerators and struct layout against the documented ABI
        let mut k = [0i64; 16];
        unsafe { cshim_constants(k.as_mut_ptr()) };
        {
            let mut s = st.lock().unwrap();
            s.out.probe("judged.header_constants");
            let want = [0i64, 1, 2, 3, 4, 0, 1, 2];
            if k[..8] != want {
                s.out.violate(&["C17"], "header_enumerators", "enum".into(), format!("clockbound.h enumerators {:?} differ from the documented 0..4 / 0..2", &k[..8]));
            }
            if k[8] as usize != std::mem::size_of::<clockbound::clockbound_err>() || k[9] as usize != std::mem::size_of::<clockbound::clockbound_now_result>() {
                s.out.violate(&["C17"], "header_struct_sizes", "size".into(), format!("C sizes err={} now_result={} vs Rust {} / {}", k[8], k[9], std::mem::size_of::<clockbound::clockbound_err>(), std::mem::size_of::<clockbound::clockbound_now_result>()));
            }
        }
        let mut held: Option<(Client, Client)> = None;
        // a pair opened once and queried at every instant: the two libraries never part ways,
        // whatever happens to the file they have mapped
        let mut lasting: Option<(Client, Client)> = None;
        for _ in 0..cfg.pairs {
            let t = verif_rt::now_ns() + *r.pick(&[50_000_000i64, 500_000_000, 1_100_000_000, 2_500_000_000]) + r.range(0, 100_000_000);
            if t >= end {
                break;
            }
            verif_rt::sleep_until(t);
            // a pair opened at the previous instant and not queried since: the first query of
            // each, at one frozen instant, must agree as well (neither library may have read the
            // segment earlier than the other)
            if lasting.is_none() {
                lasting = verif_rt::freeze(|| match (Client::open(1, &path), Client::open(3, &path)) {
                    (Ok(a), Ok(b)) => Some((a, b)),
                    _ => None,
                });
            } else if let Some((lr, lc)) = lasting.as_mut() {
                let (a, b) = verif_rt::freeze(|| (guarded_now(lr).0, guarded_now(lc).0));
                let mut s = st.lock().unwrap();
                s.out.probe("judged.lasting_pair_queries");
                if !same_result(&a, &b) {
                    s.out.violate(&["C17"], "rust_and_c_clients_disagree", "lasting_pair".into(), format!("opened together, queried together at every instant: Rust client {a:?}, C client {b:?}"));
                }
            }
            if let Some((mut hr, mut hc)) = held.take() {
                let (a, b) = verif_rt::freeze(|| (guarded_now(&mut hr).0, guarded_now(&mut hc).0));
                verif_rt::freeze(|| {
                    drop(hr);
                    drop(hc);
                });
                let mut s = st.lock().unwrap();
                s.out.probe("judged.held_pair_first_queries");
                if !same_result(&a, &b) {
                    s.out.violate(&["C17"], "rust_and_c_clients_disagree", "held_pair".into(), format!("opened at one instant, first queried at another (same for both): Rust client {a:?}, C client {b:?}"));
                }
            }
            if r.chance(60) {
                held = verif_rt::freeze(|| match (Client::open(1, &path), Client::open(3, &path)) {
                    (Ok(a), Ok(b)) => Some((a, b)),
                    _ => None,
                });
            }
            let (a, b) = verif_rt::freeze(|| {
                let a = match Client::open(1, &path) {
                    Ok(mut c) => guarded_now(&mut c).0,
                    Err(e) => e,
                };
                let mut c_opened = true;
                let b = match Client::open(3, &path) {
                    Ok(mut c) => guarded_now(&mut c).0,
                    Err(e) => {
                        c_opened = false;
                        e
                    }
                };
                // the header allows a NULL error pointer on open
                use std::os::unix::ffi::OsStrExt;
                let cp = CString::new(path.as_os_str().as_bytes()).unwrap();
                let null_ok = verif_rt::nokill(|| unsafe { cshim_open_null_err(cp.as_ptr()) }) == 1;
                if null_ok != c_opened {
                    st.lock().unwrap().out.violate(&["C17"], "open_with_null_err_differs", format!("opened={c_opened}"), format!("clockbound_open(path, NULL) {} while clockbound_open(path, &err) {}", if null_ok { "succeeded" } else { "returned NULL" }, if c_opened { "succeeded" } else { "failed" }));
                }
                (a, b)
            });
            let mut s = st.lock().unwrap();
            s.out.probe("judged.paired_observations");
            s.out.nontrivial.insert("C17");
            match (&a, &b) {
                (CallResult::Ok { .. }, _) => s.out.probe("probe.pair_ok"),
                (CallResult::Err { .. }, _) => s.out.probe("probe.pair_error"),
                _ => {}
            }
            if !same_result(&a, &b) {
                let sig = match (&a, &b) {
                    (CallResult::Ok { .. }, CallResult::Ok { .. }) => "both_ok",
                    (CallResult::Err { .. }, CallResult::Err { .. }) => "both_err",
                    _ => "ok_vs_err",
                };
                s.out.violate(&["C17"], "rust_and_c_clients_disagree", sig.into(), format!("same segment, same frozen instant: Rust client {a:?}, C client {b:?}"));
            }
        }
    });
}

pub struct BRun {
    pub outcome: Outcome,
    pub report: verif_rt::RunReport,
}

pub fn run(cfg: &BCfg, run_seed: u64, replay: Option<Vec<u32>>, trace: bool, sandbox: &Path) -> BRun {
    let _ = keep_ffi_symbols();
    let path = sandbox.join("run-clockbound").join("shm");
    let _ = std::fs::create_dir_all(sandbox.join("run-clockbound"));
    apply_corruption(&path, &cfg.init_file);
    let world: SharedWorld = Arc::new(Mutex::new(World::new(cfg, sandbox)));
    let synthetic = cfg.synthetic_cases > 0;
    let nclients = if synthetic { 1 } else { cfg.clients.len() };
    let st: SharedB = Arc::new(Mutex::new(BState::new(cfg, world.clone(), nclients)));
    let mut faults = Vec::new();
    for (i, d) in cfg.daemon.iter().enumerate() {
        if let Some(at) = d.kill_at {
            faults.push(FaultSpec { role: ROLE_DAEMON, incarnation: i as u32, class: FaultClass::Kill, at, arg: 0 });
        }
        if let Some(at) = d.panic_at {
            faults.push(FaultSpec { role: ROLE_DAEMON, incarnation: i as u32, class: FaultClass::Panic, at, arg: 0 });
        }
        if let Some((at, e)) = d.io_err {
            faults.push(FaultSpec { role: ROLE_DAEMON, incarnation: i as u32, class: FaultClass::IoErr, at, arg: e });
        }
    }
    let ecfg = verif_rt::Cfg {
        weak: cfg.weak,
        stale_ppm: cfg.stale_ppm,
        sched: verif_rt::Sched::Random { switch_ppm: cfg.switch_ppm },
        field_perm: false,
        step_cost_ns: cfg.step_cost_ns,
        delay_ppm: cfg.delay_ppm,
        max_steps: cfg.max_steps,
        start_mono_ns: cfg.start_mono_ns,
        tick_ns: cfg.tick_ns,
        clock_lag_ppm: cfg.clock_lag_ppm,
        clock_lag_max_ns: cfg.clock_lag_max_ns,
        clock_fail_ppm: cfg.clock_fail_ppm,
        clock_read_cost_ns: cfg.clock_read_cost_ns,
        faults,
        hash_seed: cfg.hash_seed,
        sandbox: sandbox.to_path_buf(),
        trace,
        preempts: Vec::new(),
    };
    let phc_refid = clock_bound_d::refid_to_u32(PHC_NAMES[cfg.phc_name as usize % PHC_NAMES.len()]).unwrap_or_else(|_| phc_refid_of(cfg.phc_name));
    let phc = if cfg.phc != 0 { Some(clock_bound_d::PhcInfo { refid: phc_refid, sysfs_error_bound_path: world.lock().unwrap().phc_path.clone() }) } else { None };
    let mut procs = Vec::new();
    let mut seeds = Rng::new(mix(cfg.world_seed, 0xC11E));
    if synthetic {
        let (c2, p2, s2, w2, sd) = (cfg.clone(), path.clone(), st.clone(), world.clone(), seeds.next());
        procs.push(verif_rt::ProcSpec { name: "synthetic".into(), role: ROLE_HOST, f: Box::new(move || synthetic_thread(c2, p2, s2, w2, sd)) });
    } else {
        if !cfg.daemon.is_empty() {
            let (c2, s2, p2) = (cfg.clone(), st.clone(), path.clone());
            procs.push(verif_rt::ProcSpec { name: "supervisor".into(), role: ROLE_HOST, f: Box::new(move || supervisor(c2, phc, s2, p2)) });
        }
        for (ci, cc) in cfg.clients.iter().enumerate() {
            let (cc, c2, p2, s2, sd) = (cc.clone(), cfg.clone(), path.clone(), st.clone(), seeds.next());
            procs.push(verif_rt::ProcSpec { name: format!("client{ci}"), role: ROLE_HOST, f: Box::new(move || client_thread(ci, cc, c2, p2, s2, sd)) });
        }
        if cfg.pairs > 0 {
            let (c2, p2, s2, sd) = (cfg.clone(), path.clone(), st.clone(), seeds.next());
            procs.push(verif_rt::ProcSpec { name: "pairs".into(), role: ROLE_HOST, f: Box::new(move || pairs_thread(c2, p2, s2, sd)) });
        }
    }
    {
        // the horizon: end of the run
        let (s2, end, syn) = (st.clone(), cfg.start_mono_ns + cfg.horizon_ns, synthetic);
        procs.push(verif_rt::ProcSpec {
            name: "horizon".into(),
            role: ROLE_HOST,
            f: Box::new(move || {
                if syn {
                    // the synthetic thread ends the run by finishing; nothing else is alive
                    return;
                }
                verif_rt::sleep_until(end);
                {
                    let mut s = s2.lock().unwrap();
                    s.finalize(verif_rt::now_ns());
                    s.ended = true;
                }
                verif_rt::shutdown();
            }),
        });
    }
    let w2 = world.clone();
    let report = verif_rt::run(verif_rt::RunSpec {
        seed: run_seed,
        cfg: ecfg,
        replay,
        observer: Some(Box::new(BObserver { st: st.clone() })),
        chrony: Some(Box::new(Chronyd(world.clone()))),
        rt_off: Some(Box::new(move |m| w2.lock().unwrap_or_else(|e| e.into_inner()).rt_off(m))),
        procs,
        watchdog: std::time::Duration::from_secs(30),
    });
    let mut s = st.lock().unwrap();
    if !s.ended {
        let end = cfg.start_mono_ns + report.virt_ns;
        s.finalize(end);
    }
    let mut out = std::mem::take(&mut s.out);
    let wl = world.lock().unwrap();
    out.probe_n("measure.chrony_polls", wl.polls.len() as u64);
    for p in &wl.polls {
        out.probe(&format!("fault.chronyd_mode.{:?}", p.mode));
        match p.phc {
            super::world::PhcState::Missing => out.probe("fault.phc_file_missing"),
            super::world::PhcState::Garbage => out.probe("fault.phc_file_garbage"),
            super::world::PhcState::Unreadable => out.probe("fault.phc_file_unreadable"),
            _ => {}
        }
    }
    out.probe_n("measure.chronyd_clock_updates", wl.updates);
    out.probe_n("measure.publications", s.pubs.len() as u64);
    if report.hung {
        out.violate(&["C15", "C14", "C18"], "hang", "watchdog".into(), "the run stopped yielding".into());
    }
    if report.budget_exhausted {
        out.probe("probe.run_truncated_by_step_budget");
    }
    if report.deadlock {
        out.violate(&["C15"], "deadlock", "deadlock".into(), "nothing runnable, no timer pending, threads still alive".into());
    }
    for (t, p) in &report.panics {
        // panics inside the daemon are part of its behaviour (they kill a worker); others are not
        let name = report.thread_names.get(*t as usize).cloned().unwrap_or_default();
        if name.starts_with("client") || name.starts_with("pairs") || name.starts_with("synthetic") {
            out.probe("probe.client_side_panic");
            let _ = p;
        }
    }
    let _ = (Corrupt::None, json!(null));
    out.sample = Some(json!({"config": cfg.to_json(), "history": s.history()}));
    BRun { outcome: out, report }
}
