//! Oracles of world B: an observer over the engine's event stream plus entry points called by the
//! client threads with their results.

use super::cfg::BCfg;
use super::world::{Mode, PhcState, PollInfo, SharedWorld};
use super::{phc_refid_of, ROLE_CLIENT, ROLE_DAEMON, ROLE_PUB};
use crate::models::{self, bound_formula, classify_report, decay, half_width, ts_ns, ErrKind, MsgKind, Status, UpdaterModel, NS};
use crate::util::*;
use serde_json::{json, Value};
use std::collections::BTreeMap;
use std::sync::{Arc, Mutex};
use verif_rt::mem::LOC_GEN;
use verif_rt::{EngView, EvKind, Event, Observer};

const CLOCK_SYSTEMTIME: u64 = 1000;
const CLOCK_INSTANT: u64 = 2000;
const GRACE_NS: i64 = 5_000_000_000;
/// C15: a few seconds = 3 x 1 s query time-outs + 1 s poll sleep + margin
const EXIT_BUDGET_NS: i64 = 10_000_000_000;

#[derive(Clone, Debug, Default)]
struct PollRec {
    as_of: Option<(i128, i64)>,
    q_at: i64,
    r_at: i64,
    info: Option<PollInfo>,
    msg: Option<MsgKind>,
    msg_at: i64,
    send_at: Option<i64>,
    /// first poller clock read after a tracking reply (the latest instant the implementation
    /// can have time-stamped "the last good answer")
    a_hi: Option<i64>,
    delayed_between: bool,
    /// (a_lo, a_hi) of the last good answer before this poll
    lg_before: Option<(i64, i64)>,
}

#[derive(Clone, Debug)]
pub struct PubRec {
    pub rec: PRecord,
    pub at: i64,
    pub inc: u32,
    pub pre_sync: bool,
    /// generation in the header once this publication was complete, and which life of the file
    /// (the count of re-creations before it) it belongs to
    pub gen: u16,
    pub epoch: u32,
}

struct Daemon {
    pid: u32,
    inc: u32,
    main_tid: u32,
    poller: Option<u32>,
    writer: Option<u32>,
    pending_as_of: Option<(i128, i64)>,
    polls: Vec<PollRec>,
    /// (channel, sequence) of a poller message -> poll index
    sent: BTreeMap<(u64, u64), usize>,
    cur_msg: Option<usize>,
    systime: Option<i128>,
    model: UpdaterModel,
    model_bound_ambiguous: bool,
    last_good: Option<(i64, i64)>,
    death: Option<(i64, String)>,
    allowance: i64,
    killed: bool,
    ended_at: Option<i64>,
    w_gen_odd: bool,
    pubs: usize,
    msgs_delivered: usize,
    /// injected stall time suffered by threads other than the poller since the writer last had
    /// nothing pending (each second of stall legitimately queues one more outcome)
    stall_since_caught_up_ns: i64,
}

#[derive(Clone, Debug, Default)]
pub struct CallObs {
    pub active: bool,
    /// (clock id, value, at, source instant)
    pub reads: Vec<(u64, i128, i64, i64)>,
    pub fail: Option<(u64, i32)>,
    pub pub_began_during: bool,
    pub pubs_at_begin: usize,
    pub inflight_at_begin: bool,
    pub delayed: bool,
    pub recreating_at_begin: bool,
    pub gen_at_begin: u16,
    pub recreated_during: bool,
}

#[derive(Clone, Debug, Default)]
struct ClientState {
    tid: u32,
    call: CallObs,
    /// last (record, mono reading, half-width) for the growth check
    last_growth: Option<(PRecord, i128, i128)>,
    last_rec_at: Option<i64>,
    last_rec: Option<PRecord>,
    /// every record that explained the client's last answer (with a zero drift rate or equal
    /// bounds several do): any of them may be what the client holds in its cache
    last_recs: Vec<PRecord>,
    /// the client's cache may hold a mixture of two lives of the file (a call of its spanned a
    /// re-creation after third-party damage)
    tainted: bool,
    /// the file this client may have mapped was removed (it no longer sees the daemon's updates)
    orphaned: bool,
}

pub struct BState {
    pub out: Outcome,
    cfg: BCfg,
    world: SharedWorld,
    daemons: Vec<Daemon>,
    pub pubs: Vec<PubRec>,
    clients: Vec<ClientState>,
    update_in_flight: bool,
    /// the daemon has begun to re-create the segment file and has not published into it yet
    recreating: bool,
    live_gen: u16,
    file_epoch: u32,
    /// a third party damaged the file header at some point of this run
    pub damaged_ever: bool,
    /// number of publications made into files that were removed since
    removed_upto: usize,
    /// (distance as_of - mono, was causality error) per judged call with mono < as_of
    blur_obs: Vec<(i128, bool)>,
    hist: Vec<Value>,
    pub ended: bool,
    synthetic_rec: Option<PRecord>,
}

pub type SharedB = Arc<Mutex<BState>>;

fn status_name(s: i32) -> &'static str {
    match s {
        0 => "Unknown",
        1 => "Synchronized",
        2 => "FreeRunning",
        _ => "invalid",
    }
}

#[derive(Clone, Debug)]
pub enum CallResult {
    Ok { earliest: i128, latest: i128, status: i32 },
    Err { kind: u8, errno: i32, detail: String },
    Panicked(String),
}

impl BState {
    pub fn new(cfg: &BCfg, world: SharedWorld, nclients: usize) -> BState {
        BState {
            out: Outcome::default(),
            cfg: cfg.clone(),
            world,
            daemons: Vec::new(),
            pubs: Vec::new(),
            clients: (0..nclients).map(|_| ClientState { tid: u32::MAX, ..Default::default() }).collect(),
            update_in_flight: false,
            recreating: false,
            live_gen: 0,
            file_epoch: 0,
            damaged_ever: false,
            removed_upto: 0,
            blur_obs: Vec::new(),
            hist: Vec::new(),
            ended: false,
            synthetic_rec: None,
        }
    }

    fn h(&mut self, v: Value) {
        if self.hist.len() < 80 {
            self.hist.push(v);
        }
    }

    pub fn history(&self) -> Vec<Value> {
        self.hist.clone()
    }

    // ------------------------------------------------------------------------------------
    // publication oracles (C07 C08 C09 C10 C12 C13)
    // ------------------------------------------------------------------------------------

    /// The segment file is about to be removed by a third party: every client that exists by now
    /// may be left with the old file.
    pub fn file_removed(&mut self) {
        self.damaged_ever = true;
        self.removed_upto = self.pubs.len();
        for c in self.clients.iter_mut() {
            c.orphaned = true;
        }
    }

    fn on_publication(&mut self, di: usize, rec: PRecord, now: i64) {
        let drift = self.cfg.drift_ppb;
        let phc_cfg = self.cfg.phc;
        let phc_name = self.cfg.phc_name;
        let d = &mut self.daemons[di];
        d.pubs += 1;
        if d.pubs >= d.sent.len() {
            d.stall_since_caught_up_ns = 0;
        }
        let inc = d.inc;
        let Some(pi) = d.cur_msg.take() else {
            self.out.violate(&["C08"], "publication_without_message", "extra".into(), format!("daemon incarnation {inc} published {rec:?} without a poll outcome having been delivered"));
            self.pubs.push(PubRec { rec, at: now, inc, pre_sync: !self.daemons[di].model.seen_sync, gen: self.live_gen, epoch: self.file_epoch });
            self.recreating = false;
            return;
        };
        let poll = d.polls[pi].clone();
        let systime = d.systime.take();
        let pre_sync = !d.model.seen_sync;
        let prev_bound = d.model.bound;
        let prev_as_of = d.model.as_of;
        let mut viol: Vec<(Vec<&'static str>, &'static str, String, String)> = Vec::new();
        let mut probes: Vec<&'static str> = Vec::new();
        let mut nontrivial: Vec<&'static str> = Vec::new();
        let mut covers: Vec<(&'static str, u64)> = Vec::new();
        let kind = poll.msg.unwrap_or(MsgKind::Data);
        let info = poll.info.clone();
        let tracking = info.as_ref().and_then(|i| i.tracking.clone());
        // expected record
        let mut latest = Status::Unknown;
        let mut sample: Option<(i64, (i64, i64))> = None;
        let mut judge_status = true;
        match kind {
            MsgKind::Data => {
                if let Some(t) = &tracking {
                    let mut systime = systime;
                    let mut cls = systime.and_then(|st| classify_report(t.leap, t.ref_time_ns, st, t.interval));
                    if systime.is_none() {
                        // the staleness test did not read the clock: the report's age can only be
                        // placed between its reception and this publication; judged when the class
                        // is the same at both ends
                        let st_hi = now as i128 + self.world.lock().unwrap_or_else(|e| e.into_inner()).rt_off(now) as i128;
                        // (the clock error changes by far less than a millisecond in between)
                        let st_lo = st_hi - (now - poll.r_at).max(0) as i128 - 1_000_000;
                        let (c_lo, c_hi) = (classify_report(t.leap, t.ref_time_ns, st_lo, t.interval), classify_report(t.leap, t.ref_time_ns, st_hi, t.interval));
                        if c_lo.is_some() && c_lo == c_hi {
                            cls = c_lo;
                            systime = Some(st_hi);
                            probes.push("probe.report_classified_without_a_clock_read");
                        } else {
                            judge_status = false;
                        }
                    }
                    let rec_status = Status::from_i32(rec.status).unwrap_or(Status::Unknown);
                    let cls_eff = match cls {
                        Some(c) => c,
                        None => {
                            // inside the truncation gap of the threshold: accept what was published
                            probes.push("probe.report_age_inside_threshold_gap");
                            judge_status = false;
                            if !pre_sync || rec_status == Status::Synchronized || rec.bound != prev_bound { rec_status } else { Status::FreeRunning }
                        }
                    };
                    latest = cls_eff;
                    covers.push(("leap_status_values_classified", t.leap as u64));
                    if t.leap > 2 || cls_eff != Status::Synchronized {
                        nontrivial.push("C10");
                    }
                    if let Some(st) = systime {
                        let age = st - t.ref_time_ns;
                        let thr = (t.interval * 8.0 * 1e9) as i128;
                        if (age - thr).abs() <= (t.interval * 1e9) as i128 {
                            nontrivial.push("C10");
                            probes.push("probe.report_age_within_one_interval_of_threshold");
                        }
                    }
                    // C10: status of the publication
                    if judge_status && systime.is_some() {
                        let want = if pre_sync && cls_eff != Status::Synchronized { None } else { Some(cls_eff) };
                        if let Some(want) = want {
                            if rec.status != want as i32 {
                                viol.push((
                                    vec!["C10", "C08"],
                                    "report_misclassified",
                                    format!("leap={} want={:?} got={}", if t.leap <= 3 { t.leap.to_string() } else { "other".into() }, want, status_name(rec.status)),
                                    format!("report leap={} ref_time age={}ns interval={} published as {} (expected {:?})", t.leap, systime.unwrap() - t.ref_time_ns, t.interval, status_name(rec.status), want),
                                ));
                            } else {
                                probes.push("judged.report_classifications");
                            }
                        }
                    }
                    if cls_eff == Status::Synchronized {
                        // C07 (+C13 for the PHC part): the bound
                        let phc_add: Option<i64> = match (phc_cfg != 0 && t.ref_id == phc_refid_of(phc_name), info.as_ref().map(|i| i.phc)) {
                            (true, Some(PhcState::Present(v))) => Some(v),
                            (true, _) => None,
                            (false, _) => Some(0),
                        };
                        let as_of = poll.as_of.map(|(v, _)| ((v.div_euclid(NS)) as i64, (v.rem_euclid(NS)) as i64)).unwrap_or((0, 0));
                        match (bound_formula(t.offset, t.delay, t.disp), phc_add) {
                            (Some(exp), Some(phc)) => {
                                let want = exp.ceil + phc as i128;
                                let got = rec.bound as i128;
                                let ok = if exp.ambiguous { (got - want).abs() <= 1 } else { got == want };
                                if t.offset < 0.0 {
                                    nontrivial.push("C07");
                                    probes.push("probe.negative_offset_report");
                                }
                                if phc > 0 {
                                    nontrivial.push("C07");
                                    nontrivial.push("C13");
                                    probes.push("probe.phc_bound_added");
                                }
                                if !ok {
                                    let diff = got - want;
                                    let phc_file = match info.as_ref().map(|i| i.phc) {
                                        Some(PhcState::Present(v)) => v as i128,
                                        _ => 0,
                                    };
                                    let phc_related = phc_file != 0 && (diff.abs() - phc_file).abs() <= 1;
                                    let props: Vec<&'static str> = if phc_related { vec!["C13", "C07"] } else { vec!["C07"] };
                                    viol.push((
                                        props,
                                        "bound_formula",
                                        format!("offset_sign={} phc_related={} dir={}", if t.offset < 0.0 { "neg" } else { "nonneg" }, phc_related, if diff < 0 { "below" } else { "above" }),
                                        format!("report offset={:e} delay={:e} disp={:e} phc={:?} (ref match {}): published bound {} ns, exact formula gives {} ns", t.offset, t.delay, t.disp, info.as_ref().map(|i| i.phc), t.ref_id == phc_refid_of(phc_name), got, want),
                                    ));
                                    // C08 (a): the record pairs this report's as-of with the bound of an
                                    // earlier synchronised report
                                    if !pre_sync && rec.bound == prev_bound && (rec.as_of_s, rec.as_of_ns) != prev_as_of {
                                        viol.push((vec!["C08"], "bound_of_earlier_report", "kept".into(), format!("a synchronised report was published with its own as_of but with the previous record's bound {} ns (the report's own bound is {} ns)", got, want)));
                                    }
                                } else {
                                    probes.push("judged.bounds_vs_exact_formula");
                                }
                                if got < 0 {
                                    viol.push((vec!["C07"], "negative_bound", "neg".into(), format!("published bound {got} is negative")));
                                }
                                sample = Some((rec.bound, as_of));
                                d.model_bound_ambiguous = exp.ambiguous;
                            }
                            (None, _) => {
                                probes.push("probe.report_outside_exact_window_not_judged");
                                sample = Some((rec.bound, as_of));
                            }
                            (_, None) => {
                                // matching reference but PHC unreadable, yet a Data message: C13
                                viol.push((vec!["C13"], "phc_failure_used_as_measurement", "data".into(), "the PHC is chronyd's reference and its error bound could not be read, yet the report was used as a measurement".into()));
                                sample = Some((rec.bound, as_of));
                            }
                        }
                        // C12 / C08: as_of is the monotonic reading taken before the query
                        if let Some((v, at)) = poll.as_of {
                            let got = ts_ns(rec.as_of_s, rec.as_of_ns);
                            if got != v {
                                viol.push((vec!["C12", "C08"], "as_of_not_pre_query_reading", format!("later={}", got > v), format!("published as_of {got} differs from the monotonic reading {v} taken (at {at}) before the query issued at {}", poll.q_at)));
                            } else {
                                probes.push("judged.as_of_equals_pre_query_reading");
                            }
                            if poll.q_at - at >= 1_000_000 || poll.delayed_between {
                                nontrivial.push("C12");
                            }
                        }
                    }
                } else {
                    viol.push((vec!["C13", "C08"], "data_message_without_tracking_reply", "nodata".into(), format!("a measurement message was sent although chronyd gave no tracking reply (mode {:?})", info.as_ref().map(|i| i.mode))));
                    judge_status = false;
                }
            }
            MsgKind::ChronyGrace | MsgKind::PhcGrace => latest = Status::FreeRunning,
            MsgKind::ChronyGone | MsgKind::PhcGone => latest = Status::Unknown,
        }
        // C13: message class vs poll outcome and grace-period timing
        {
            let had_tracking = tracking.is_some();
            let phc_unreadable = matches!(info.as_ref().map(|i| i.phc), Some(PhcState::Missing) | Some(PhcState::Unreadable));
            let phc_match = tracking.as_ref().map(|t| phc_cfg != 0 && t.ref_id == phc_refid_of(phc_name)).unwrap_or(false);
            match kind {
                MsgKind::Data => {
                    if phc_match && phc_unreadable {
                        // handled above when synchronised; flag for every report
                        if !viol.iter().any(|v| v.1 == "phc_failure_used_as_measurement") {
                            viol.push((vec!["C13"], "phc_failure_used_as_measurement", "data".into(), "the PHC is chronyd's reference and its error bound could not be read, yet the report was used as a measurement".into()));
                        }
                    }
                }
                MsgKind::ChronyGrace | MsgKind::ChronyGone => {
                    nontrivial.push("C13");
                    if had_tracking {
                        viol.push((vec!["C13"], "tracking_reply_discarded", "chrony".into(), "chronyd answered with tracking data but the poll was reported as unanswered".into()));
                    }
                }
                MsgKind::PhcGrace | MsgKind::PhcGone => {
                    nontrivial.push("C13");
                    if !(had_tracking && phc_match && phc_unreadable) {
                        viol.push((vec!["C13"], "spurious_phc_failure", format!("match={phc_match} unreadable={phc_unreadable}"), "a PHC read failure was reported although the PHC was not the reference or its file was readable".into()));
                    }
                }
            }
            let grace = matches!(kind, MsgKind::ChronyGrace | MsgKind::PhcGrace);
            let gone = matches!(kind, MsgKind::ChronyGone | MsgKind::PhcGone);
            // the good answer relevant for a PHC failure is this very poll's reply
            let lg = if matches!(kind, MsgKind::PhcGrace | MsgKind::PhcGone) { Some((poll.r_at, poll.a_hi.unwrap_or(poll.r_at))) } else { poll.lg_before };
            if grace {
                match lg {
                    None => viol.push((vec!["C13", "C09"], "grace_without_any_answer", "startup".into(), "a FreeRunning-class outcome was reported although no answer has ever been received since daemon start".into())),
                    Some((_, a_hi)) => {
                        let el = poll.r_at - a_hi;
                        if el >= GRACE_NS {
                            viol.push((vec!["C13", "C08"], "grace_after_5s", format!("exact={}", el == GRACE_NS), format!("FreeRunning-class outcome although the last good answer was {el} ns old when the failed step returned")));
                        } else {
                            probes.push("judged.grace_class_outcomes");
                            if GRACE_NS - el < 1_100_000_000 {
                                probes.push("probe.grace_outcome_within_1s_of_boundary");
                            }
                        }
                    }
                }
            }
            if gone {
                if let Some((a_lo, _)) = lg {
                    let el = poll.send_at.unwrap_or(poll.msg_at) - a_lo;
                    if el < GRACE_NS {
                        viol.push((vec!["C13", "C08"], "unknown_within_5s", format!("el_s={}", el / 1_000_000_000), format!("Unknown-class outcome although the last good answer was only {el} ns old when the message was sent")));
                    } else {
                        probes.push("judged.unknown_class_outcomes");
                        if el - GRACE_NS < 1_100_000_000 {
                            probes.push("probe.unknown_outcome_within_1s_of_boundary");
                        }
                    }
                } else {
                    probes.push("judged.unknown_class_outcomes");
                    probes.push("probe.unknown_class_at_startup");
                }
            }
        }
        // C09: nothing but Unknown before a first measurement
        if pre_sync && sample.is_none() {
            probes.push("judged.pre_sync_publications");
            nontrivial.push("C09");
            if rec.status != 0 {
                viol.push((
                    vec!["C09"],
                    "trust_before_first_measurement",
                    format!("status={} via={:?}", status_name(rec.status), kind),
                    format!("incarnation {inc} published status {} with placeholder bound {} / as_of ({}, {}) before any synchronised report (outcome {:?})", status_name(rec.status), rec.bound, rec.as_of_s, rec.as_of_ns, kind),
                ));
            }
        }
        // C08: the record against the updater model
        let want = d.model.apply(latest, sample);
        if !pre_sync || sample.is_some() {
            let mut bad = Vec::new();
            if (rec.as_of_s, rec.as_of_ns) != (want.as_of_s, want.as_of_ns) {
                bad.push("as_of");
            }
            if rec.bound != want.bound {
                bad.push("bound");
            }
            if (rec.void_s, rec.void_ns) != (want.void_s, want.void_ns) {
                bad.push("void_after");
            }
            if judge_status && rec.status != want.status {
                bad.push("status");
            }
            if sample.is_none() && !pre_sync {
                nontrivial.push("C08");
                probes.push("probe.non_sync_outcome_after_sync");
                if (rec.bound, (rec.as_of_s, rec.as_of_ns)) != (prev_bound, prev_as_of) {
                    bad.push("not_frozen");
                    // a bound derived from this report was published after all: it must then be the
                    // formula's value (C07 speaks of every report the daemon derives a bound from)
                    if let (MsgKind::Data, Some(t)) = (kind, &tracking) {
                        if rec.bound != prev_bound {
                            if let Some(exp) = bound_formula(t.offset, t.delay, t.disp) {
                                let phc = match info.as_ref().map(|i| i.phc) {
                                    Some(PhcState::Present(v)) if phc_cfg != 0 && t.ref_id == phc_refid_of(phc_name) => v as i128,
                                    _ => 0,
                                };
                                if (rec.bound as i128 - (exp.ceil + phc)).abs() > 1 {
                                    viol.push((vec!["C07"], "bound_formula", "on_non_sync_report".into(), format!("a non-synchronised report refreshed the published bound to {} ns; the formula on that report gives {} ns", rec.bound, exp.ceil + phc)));
                                }
                            }
                        }
                    }
                }
            }
            if !bad.is_empty() {
                viol.push((
                    vec!["C08"],
                    "record_vs_history",
                    format!("fields={} outcome={:?}", bad.join("+"), kind),
                    format!("after outcome {:?} (mode {:?}) incarnation {inc} published {:?}, the documented behaviour gives {:?}", kind, info.as_ref().map(|i| i.mode), rec, want),
                ));
            } else {
                probes.push("judged.records_vs_updater_model");
            }
        }
        if rec.drift != drift {
            viol.push((vec!["C08"], "drift_not_configured_value", "drift".into(), format!("published max_drift_ppb {} differs from the configured {}", rec.drift, drift)));
        }
        for (p, o, s, dd) in viol {
            self.out.violate(&p, o, s, dd);
        }
        for p in probes {
            self.out.probe(p);
        }
        for n in nontrivial {
            self.out.nontrivial.insert(n);
        }
        for (k, v) in covers {
            self.out.cover(k, v);
        }
        self.out.cover("outcome_kind_x_chronyd_mode", (kind as u64) * 16 + info.as_ref().map(|i| i.mode as u64).unwrap_or(15));
        self.h(json!({"publish": {"inc": inc, "outcome": format!("{kind:?}"), "status": status_name(rec.status), "bound": rec.bound, "as_of": [rec.as_of_s, rec.as_of_ns], "t": now}}));
        self.pubs.push(PubRec { rec, at: now, inc, pre_sync: pre_sync && sample.is_none(), gen: self.live_gen, epoch: self.file_epoch });
        self.recreating = false;
    }

    // ------------------------------------------------------------------------------------
    // client-side oracles (C01 C05 C06 C12 C14, C04b)
    // ------------------------------------------------------------------------------------

    pub fn client_register(&mut self, ci: usize, tid: u32) {
        self.clients[ci].tid = tid;
    }

    pub fn call_begin(&mut self, ci: usize) {
        let c = &mut self.clients[ci];
        c.call = CallObs { active: true, pubs_at_begin: self.pubs.len(), inflight_at_begin: self.update_in_flight, recreating_at_begin: self.recreating, gen_at_begin: self.live_gen, ..Default::default() };
    }

    pub fn set_synthetic_record(&mut self, r: PRecord) {
        self.synthetic_rec = Some(r);
    }

    /// Judge one client call. `known` is the record the call is known to have used (raw kind).
    pub fn call_end(&mut self, ci: usize, kind: u8, known: Option<PRecord>, res: CallResult, premises_hold: bool) {
        let obs = std::mem::take(&mut self.clients[ci].call);
        self.out.probe("judged.client_calls");
        let d = self.cfg.drift_ppb;
        let t0 = self.cfg.t0_ns as i128;
        if let CallResult::Panicked(m) = &res {
            // (the simulator builds with overflow checks: an arithmetic wrap that would silently corrupt the
            // interval in a release build surfaces here as a panic, hence C05 as well)
            self.out.violate(&["C14", "C05"], "client_call_panicked", "panic".into(), format!("client call (kind {kind}) panicked: {m}; record {known:?}"));
            return;
        }
        if obs.recreated_during && self.damaged_ever {
            // the file was re-created (after third-party damage) while this call was copying the
            // record: what it read is a mixture of two lives of the file, not covered by any property
            self.out.probe("probe.call_spanning_a_recreation_not_judged");
            self.clients[ci].last_rec = None;
            self.clients[ci].last_recs.clear();
            self.clients[ci].tainted = true;
            return;
        }
        // clock readings of this call
        let rt = obs.reads.iter().find(|r| r.0 == libc::CLOCK_REALTIME as u64).copied();
        let mono = obs.reads.iter().find(|r| r.0 == libc::CLOCK_MONOTONIC_COARSE as u64).copied();
        // C14: a failing clock_gettime surfaces as the syscall error with its errno
        if let Some((_clk, errno)) = obs.fail {
            self.out.nontrivial.insert("C14");
            match &res {
                CallResult::Err { kind: 1, errno: e, detail } if *e == errno && detail == "clock_gettime" => self.out.probe("judged.clock_failure_surfaced"),
                other => self.out.violate(&["C14"], "clock_failure_not_surfaced", "clockfail".into(), format!("clock_gettime failed with errno {errno} during the call, result {other:?}")),
            }
            return;
        }
        // C12 structural: realtime is read before monotonic
        if let (Some(r), Some(m)) = (rt, mono) {
            let ri = obs.reads.iter().position(|x| x.0 == r.0).unwrap();
            let mi = obs.reads.iter().position(|x| x.0 == m.0).unwrap();
            if ri > mi {
                self.out.violate(&["C12"], "client_reads_monotonic_first", "order".into(), "the client read the monotonic clock before the realtime clock".into());
            } else {
                self.out.probe("judged.client_read_order");
            }
            if m.2 - r.2 >= 1_000_000 {
                self.out.nontrivial.insert("C12");
                self.out.probe("probe.delay_between_client_clock_reads_ge_1ms");
            }
        }
        let (Some(rt), Some(mono)) = (rt, mono) else {
            // no clock was read: only legitimate for snapshot-level errors
            if let CallResult::Ok { .. } = res {
                self.out.violate(&["C12", "C05"], "interval_without_clock_reads", "noclock".into(), "an interval was returned without both clocks having been read".into());
            }
            return;
        };
        // C12: the interval must be centred on a realtime reading that was followed by the
        // monotonic reading its half-width is computed from (a call may read the pair again,
        // e.g. to retry; what counts is the pair that produced the answer)
        let mut rt = rt;
        let mut mono = mono;
        if let CallResult::Ok { earliest, latest, .. } = &res {
            if (earliest + latest) % 2 == 0 {
                let centre = (earliest + latest) / 2;
                let is_rt = |x: &(u64, i128, i64, i64)| x.0 == libc::CLOCK_REALTIME as u64 && x.1 == centre;
                let is_mono = |x: &(u64, i128, i64, i64)| x.0 == libc::CLOCK_MONOTONIC_COARSE as u64;
                let mut pair = None;
                // (the last such pair: a realtime clock slewed to a standstill can return the same
                // value twice, and an answer is computed from the latest readings taken)
                for (pos, r) in obs.reads.iter().enumerate() {
                    if is_rt(r) {
                        if let Some(m) = obs.reads[pos + 1..].iter().find(|x| is_mono(x)) {
                            pair = Some((*r, *m));
                        }
                    }
                }
                match pair {
                    Some((r, m)) => {
                        if r.2 != rt.2 {
                            self.out.probe("probe.answer_from_a_later_pair_of_clock_reads");
                        }
                        rt = r;
                        mono = m;
                    }
                    None => {
                        if let Some(r) = obs.reads.iter().rev().find(|x| is_rt(x)) {
                            let m = obs.reads.iter().rev().find(|x| is_mono(x)).copied().unwrap_or(mono);
                            self.out.violate(&["C12"], "interval_centred_on_later_realtime_read", "order".into(), format!("the interval is centred on a realtime reading taken at {} ns, after the last monotonic reading (taken at {} ns)", r.2, m.2));
                            rt = *r;
                            mono = m;
                        }
                    }
                }
            }
        }
        let (real_v, mono_v) = (rt.1, mono.1);
        if std::env::var_os("VERIF_DEBUG_RANK").is_some() {
            eprintln!("client {ci} kind {kind} reads {:?} chosen rt {:?} mono {:?} res {:?}", obs.reads, rt, mono, res);
        }
        // which record explains the result?
        let candidates: Vec<PRecord> = match known.or(self.synthetic_rec) {
            Some(r) => vec![r],
            None => {
                let mut v: Vec<PRecord> = self.pubs.iter().rev().take(40).map(|p| p.rec).collect();
                // a client may legitimately answer from its previous snapshot (update in flight)
                for r in self.clients[ci].last_recs.clone() {
                    v.push(r);
                }
                if self.clients[ci].orphaned {
                    // a client left with a removed file reads what the file's last daemon wrote
                    let hi = self.removed_upto.min(self.pubs.len());
                    for p in self.pubs[hi.saturating_sub(40)..hi].iter().rev() {
                        v.push(p.rec);
                    }
                }
                if let Some(r) = self.clients[ci].last_rec {
                    v.push(r);
                }
                v.push(PRecord::default());
                if self.cfg.init_file != crate::world_a::Corrupt::None {
                    // the record left in the segment by an "earlier daemon"
                    v.push(crate::world_a::rec_of(0));
                }
                v
            }
        };
        let mut explained: Option<(PRecord, Vec<(Vec<&'static str>, &'static str, String, String)>)> = None;
        // (judge_law notes blur observations as a side effect: only those of the record finally
        // attributed to the answer are kept)
        let blur_mark = self.blur_obs.len();
        for rec in &candidates {
            let v = self.judge_law(rec, real_v, mono_v, &res);
            if v.is_empty() {
                explained = Some((*rec, v));
                break;
            }
            if explained.is_none() {
                explained = Some((*rec, v));
            }
        }
        let (rec, law_viol) = explained.unwrap();
        self.blur_obs.truncate(blur_mark);
        let _ = self.judge_law(&rec, real_v, mono_v, &res);
        let blur_mark = self.blur_obs.len();
        if std::env::var_os("VERIF_DEBUG_RANK").is_some() {
            let rank = self.pubs.iter().rev().position(|p| p.rec == rec);
            eprintln!("client {ci} kind {kind} mono={mono_v} matched rank {rank:?} rec {rec:?} of {} pubs", self.pubs.len());
        }
        let law_ok = law_viol.is_empty();
        if self.clients[ci].tainted {
            let fresh = law_ok && self.pubs.last().map(|n| n.rec == rec && n.epoch == self.file_epoch).unwrap_or(false);
            if fresh {
                self.clients[ci].tainted = false;
            } else {
                self.out.probe("probe.answer_from_a_cache_mixed_by_a_recreation_not_judged");
                return;
            }
        }
        if law_ok {
            self.clients[ci].last_rec = Some(rec);
            // the other candidates that explain the answer just as well
            let mut all: Vec<PRecord> = Vec::new();
            for c in &candidates {
                if *c != rec && !all.contains(c) && all.len() < 12 && self.judge_law(c, real_v, mono_v, &res).is_empty() {
                    all.push(*c);
                }
            }
            self.clients[ci].last_recs = all;
            self.blur_obs.truncate(blur_mark);
        }
        let single = known.is_some() || self.synthetic_rec.is_some();
        if !law_viol.is_empty() {
            if single {
                for (p, o, s, dd) in law_viol {
                    self.out.violate(&p, o, s, dd);
                }
            } else {
                self.out.violate(&["C05", "C06", "C17"], "unexplained_result", format!("kind={kind}"), format!("no published record explains the result {res:?} at real={real_v} mono={mono_v} (client kind {kind}); newest records: {:?}", self.pubs.iter().rev().take(3).map(|p| p.rec).collect::<Vec<_>>()));
            }
        } else {
            self.out.probe("judged.client_law_results");
        }
        let as_of = ts_ns(rec.as_of_s, rec.as_of_ns);
        let void_after = ts_ns(rec.void_s, rec.void_ns);
        if mono_v >= as_of + 5 * NS || rec.status != 1 {
            self.out.nontrivial.insert("C06");
        }
        if mono_v > as_of {
            self.out.nontrivial.insert("C05");
        }
        if mono_v < as_of || rec.drift >= 1_000_000_000 {
            self.out.nontrivial.insert("C14");
        }
        for thr in [as_of, as_of + 5 * NS, void_after] {
            if (mono_v - thr).abs() <= self.cfg.tick_ns.max(1) as i128 {
                self.out.probe("probe.call_within_one_tick_of_a_threshold");
            }
            if mono_v == thr {
                self.out.probe("probe.call_exactly_at_a_threshold");
            }
        }
        if let CallResult::Ok { earliest, latest, status } = res {
            // growth: the half-width never shrinks as the same record gets older
            let half = (latest - earliest) / 2;
            if let Some((r0, m0, h0)) = self.clients[ci].last_growth {
                // (only when the record used is known, not merely one that explains the answer)
                if single && r0 == rec && mono_v >= m0 && half < h0 {
                    self.out.violate(&["C05"], "half_width_shrank", "shrink".into(), format!("same record, monotonic reading {m0} -> {mono_v}, half-width {h0} -> {half}"));
                }
            }
            self.clients[ci].last_growth = Some((rec, mono_v, half));
            // C04b (daemon level): an attached raw client sees the newest publication when idle
            // (for the client libraries the record used is the newest one that explains the answer:
            // if that is not the newest publication, the newest publication does not explain it)
            if (known.is_some() || law_ok) && !self.cfg.weak && !obs.inflight_at_begin && !obs.pub_began_during && !self.update_in_flight && obs.pubs_at_begin == self.pubs.len() && !obs.recreating_at_begin && !self.recreating && !self.clients[ci].orphaned {
                if let Some(newest) = self.pubs.last().cloned() {
                    self.out.probe("judged.raw_client_freshness");
                    // After an in-place re-creation the generation counter starts again at 2. A
                    // client that was attached all along and cached the record of generation g in an
                    // earlier life of the file takes generation g of the new life for "nothing new"
                    // and answers from its cache until the next update. The file is only ever
                    // re-created under attached clients after a third party damaged it, which the
                    // properties do not cover: noted, not judged.
                    let planted_gen = match self.cfg.init_file { crate::world_a::Corrupt::SetValid { gen } => Some(gen), _ => None };
                    let mut aba = false;
                    if newest.rec != rec && self.file_epoch > 0 {
                        // (any record of an earlier life with that generation that explains the answer:
                        // with a zero drift rate several records can explain the same answer)
                        let mut earlier: Vec<PRecord> = self.pubs.iter().filter(|p| p.epoch < self.file_epoch && p.gen == obs.gen_at_begin).map(|p| p.rec).collect();
                        if planted_gen == Some(obs.gen_at_begin) {
                            earlier.push(crate::world_a::rec_of(0));
                        }
                        for e in earlier {
                            if e == rec || self.judge_law(&e, real_v, mono_v, &res).is_empty() {
                                aba = true;
                                break;
                            }
                        }
                    }
                    if aba {
                        self.out.probe("probe.client_answered_from_cache_on_generation_coincidence_after_recreation");
                    } else if newest.rec != rec {
                        // C06 as well when the answer is stronger than the segment's record justifies
                        let rank = |st: i32| match st { 1 => 2, 2 => 1, _ => 0 };
                        let just = decay(Status::from_i32(newest.rec.status).unwrap_or(Status::Unknown), mono_v, ts_ns(newest.rec.as_of_s, newest.rec.as_of_ns), ts_ns(newest.rec.void_s, newest.rec.void_ns));
                        let mut props = vec!["C04", "C03"];
                        if rank(status) > rank(just as i32) {
                            props.push("C06");
                        }
                        self.out.violate(&props, "attached_client_stale", format!("stronger={}", rank(status) > rank(just as i32)), format!("no update in flight, newest publication {:?} (incarnation {}), attached client used {:?}", newest.rec, newest.inc, rec));
                    } else if newest.inc > 0 && self.daemons.iter().any(|d| d.killed) {
                        self.out.nontrivial.insert("C04");
                    }
                }
            }
            // C01: containment of true time at the instant the realtime clock was read
            // a record the harness itself planted in the initial file is not a measurement of this
            // world: the premises of C01 say nothing about it
            let planted = self.cfg.init_file != crate::world_a::Corrupt::None && rec == crate::world_a::rec_of(0);
            if planted {
                self.out.probe("probe.call_on_planted_initial_record_not_judged_for_C01");
            }
            if premises_hold && !planted && (status == 1 || status == 2) {
                let t_true = rt.2 as i128 + t0;
                let lag = (mono.2 - mono.3).max(0) as i128;
                let allow = if lag > 0 { (lag * d as i128 + NS - 1) / NS + 1 } else { 0 };
                let slack = 2 + allow;
                self.out.probe("judged.containment_calls");
                self.out.nontrivial.insert("C01");
                if lag > 0 {
                    self.out.probe("probe.judged_call_with_lagged_monotonic_read");
                }
                let deficit = (earliest - t_true).max(t_true - latest);
                if deficit > slack {
                    // would the un-floored monotonic reading have covered it?
                    let unfloored = mono.3 as i128;
                    let age_u = (unfloored - as_of).max(0);
                    let half_u = half_width(rec.bound, rec.drift, age_u);
                    let err = (real_v - t_true).abs();
                    let tick_explains = self.cfg.tick_ns > 1 && (single || law_ok) && err <= half_u + slack && deficit <= (self.cfg.tick_ns as i128 * d as i128) / NS + 2 + slack;
                    let pre_sync = self.pubs.iter().any(|p| p.rec == rec && p.pre_sync);
                    if tick_explains {
                        self.out.violate(
                            &["C01"],
                            "containment",
                            "cause=coarse_tick_floor".into(),
                            format!("true time {t_true} outside [{earliest}, {latest}] by {deficit} ns (status {}); the deficit vanishes when the age is taken from the un-floored monotonic reading (tick {} ns, drift {} ppb)", status_name(status), self.cfg.tick_ns, d),
                        );
                    } else {
                        self.out.violate(
                            &["C01"],
                            "containment",
                            format!("cause=other status={} placeholder_record={}", status_name(status), pre_sync),
                            format!("true time {t_true} outside [{earliest}, {latest}] by {deficit} ns: clock error {} ns, record {:?}, real={real_v} mono={mono_v} lag={lag}", real_v - t_true, rec),
                        );
                    }
                } else if status == 2 {
                    self.out.probe("probe.containment_judged_on_freerunning");
                }
            }
            // C09 client side: a record published before any measurement must read as Unknown
            if self.pubs.iter().any(|p| p.rec == rec && p.pre_sync) && status != 0 && explained_known(single, &rec) {
                self.out.violate(&["C09"], "client_trusts_placeholder", format!("status={}", status_name(status)), format!("client reported {} on a record published before any synchronised report: {:?}", status_name(status), rec));
            }
        }
        let _ = ROLE_CLIENT;
    }

    /// The client law for one candidate record; empty result = the record explains the result.
    fn judge_law(&mut self, rec: &PRecord, real: i128, mono: i128, res: &CallResult) -> Vec<(Vec<&'static str>, &'static str, String, String)> {
        let mut v = Vec::new();
        let as_of = ts_ns(rec.as_of_s, rec.as_of_ns);
        let void_after = ts_ns(rec.void_s, rec.void_ns);
        // C14: malformed drift
        if rec.drift >= 1_000_000_000 {
            match res {
                CallResult::Err { kind: 3, errno, detail } => {
                    if *errno != 0 || !detail.is_empty() {
                        v.push((vec!["C14"], "error_payload", "malformed".into(), format!("malformed-segment error carries errno {errno} detail {detail:?}")));
                    }
                }
                other => v.push((vec!["C14"], "malformed_drift_accepted", "drift>=1e9".into(), format!("drift {} ppb must yield the malformed-segment error, got {other:?}", rec.drift))),
            }
            return v;
        }
        match res {
            CallResult::Err { kind, errno, detail } => {
                let k = *kind;
                if k == 4 {
                    if mono >= as_of {
                        v.push((vec!["C14"], "causality_error_without_breach", "mono>=as_of".into(), format!("causality error although the monotonic reading {mono} is not before as_of {as_of}")));
                    } else {
                        let dist = as_of - mono;
                        self.blur_obs.push((dist, true));
                    }
                    if *errno != 0 || !detail.is_empty() {
                        v.push((vec!["C14"], "error_payload", "causality".into(), format!("causality error carries errno {errno} detail {detail:?}")));
                    }
                } else if k == 3 {
                    v.push((vec!["C14"], "spurious_malformed", "drift<1e9".into(), format!("malformed-segment error for drift {} ppb", rec.drift)));
                } else {
                    v.push((vec!["C14"], "unexpected_error", format!("kind={k}"), format!("now() failed with kind {k} errno {errno} detail {detail:?} on record {rec:?}")));
                }
            }
            CallResult::Ok { earliest, latest, status } => {
                let stored = Status::from_i32(rec.status);
                let age = if mono >= as_of {
                    mono - as_of
                } else {
                    let dist = as_of - mono;
                    self.blur_obs.push((dist, false));
                    if dist > 10_000_000 {
                        v.push((vec!["C14"], "answered_from_inconsistent_data", "dist>10ms".into(), format!("monotonic reading {mono} precedes as_of {as_of} by {dist} ns, yet an interval was returned")));
                    }
                    0
                };
                // C05 (stored bounds >= 0: the physically meaningful range)
                let want_half = half_width(rec.bound, rec.drift, age);
                if rec.bound < 0 {
                    return v;
                }
                if earliest + latest != 2 * real {
                    v.push((vec!["C05"], "not_centred", "centre".into(), format!("earliest {earliest} + latest {latest} != 2 x realtime reading {real}")));
                }
                if earliest > latest {
                    v.push((vec!["C05"], "earliest_after_latest", "order".into(), format!("earliest {earliest} > latest {latest}")));
                }
                let half = (latest - earliest) / 2;
                // 1 ns of truncation, plus the resolution of double-precision arithmetic once the
                // half-width itself exceeds 2^51 ns (26 days' worth; outside "elapsed times of hours")
                let tol = 1 + (want_half.abs() >> 51);
                if (half - want_half).abs() > tol {
                    v.push((
                        // inside the blur window the age must be treated as zero (C14)
                        if mono < as_of { vec!["C05", "C14"] } else { vec!["C05"] },
                        "half_width",
                        format!("dir={} age0={}", if half < want_half { "narrow" } else { "wide" }, age == 0),
                        format!("half-width {half} ns, the growth law gives {want_half} ns (bound {} drift {} ppb age {age} ns)", rec.bound, rec.drift),
                    ));
                }
                // C06 (records whose void_after is at least 5 s after as_of)
                if void_after >= as_of + 5 * NS {
                    if let Some(st) = stored {
                        let want = decay(st, mono, as_of, void_after);
                        if *status != want as i32 {
                            let stronger = matches!((want, *status), (Status::Unknown, 1 | 2) | (Status::FreeRunning, 1));
                            v.push((
                                vec!["C06"],
                                "status_decay",
                                format!("stored={:?} want={:?} got={} stronger={}", st, want, status_name(*status), stronger),
                                format!("stored {:?}, monotonic {mono}, as_of {as_of}, void_after {void_after}: reported {} expected {:?}", st, status_name(*status), want),
                            ));
                        }
                    }
                }
            }
            CallResult::Panicked(_) => {}
        }
        v
    }

    // ------------------------------------------------------------------------------------
    // end of run
    // ------------------------------------------------------------------------------------

    pub fn finalize(&mut self, now: i64) {
        // C14: the blur threshold is monotone in the distance
        let max_ok = self.blur_obs.iter().filter(|o| !o.1).map(|o| o.0).max();
        let min_err = self.blur_obs.iter().filter(|o| o.1).map(|o| o.0).min();
        if let (Some(a), Some(b)) = (max_ok, min_err) {
            if a >= b {
                self.out.violate(&["C14"], "blur_not_monotone", "nonmonotone".into(), format!("a reading {a} ns before as_of was tolerated while one only {b} ns before was rejected"));
            }
        }
        if !self.blur_obs.is_empty() {
            self.out.probe_n("probe.calls_with_monotonic_before_as_of", self.blur_obs.len() as u64);
        }
        // C15 for daemons still around
        let mut viol = Vec::new();
        for d in &self.daemons {
            if let (Some((t, who)), None, false) = (&d.death, d.ended_at, d.killed) {
                let waited = now - t;
                if waited > EXIT_BUDGET_NS + d.allowance {
                    viol.push(format!("{who} of incarnation {} ended at {t}; {waited} ns later thread_manager::run has still not returned", d.inc));
                }
            }
            // C08: every delivered outcome results in a publication
            if d.death.is_none() && !d.killed && d.ended_at.is_none() && d.msgs_delivered > d.pubs + 1 {
                self.out.violate(&["C08"], "outcome_without_publication", "missing".into(), format!("incarnation {}: {} outcomes delivered, {} publications", d.inc, d.msgs_delivered, d.pubs));
            }
        }
        for v in viol {
            self.out.violate(&["C15"], "daemon_lingers", "no_exit".into(), v);
        }
    }
}

fn explained_known(single: bool, _rec: &PRecord) -> bool {
    single
}

pub struct BObserver {
    pub st: SharedB,
}

impl BObserver {
    fn daemon_of(s: &mut BState, pid: u32) -> Option<usize> {
        s.daemons.iter().position(|d| d.pid == pid && d.ended_at.is_none())
    }
}

impl Observer for BObserver {
    fn on_event(&mut self, ev: &Event, v: &EngView<'_>) {
        let mut s = self.st.lock().unwrap_or_else(|e| e.into_inner());
        if s.ended {
            return;
        }
        let role = v.thread_role(ev.tid);
        let pid = v.thread_pid(ev.tid);
        let now = ev.at;
        // client calls: clock reads and publication overlap
        if role == ROLE_CLIENT || role == ROLE_PUB {
            if let Some(c) = s.clients.iter_mut().find(|c| c.tid == ev.tid && c.call.active) {
                match ev.kind {
                    EvKind::ClockRead => c.call.reads.push((ev.a, ev.b as i64 as i128, ev.at, ev.c as i64)),
                    EvKind::ClockFail => c.call.fail = Some((ev.a, ev.b as i32)),
                    EvKind::Delay => c.call.delayed = true,
                    _ => {}
                }
            }
        }
        match ev.kind {
            EvKind::ProcStart if ev.b == ROLE_DAEMON as u64 => {
                let inc = ev.c as u32;
                let drift = s.cfg.drift_ppb;
                s.daemons.push(Daemon {
                    pid: ev.a as u32,
                    inc,
                    main_tid: ev.tid,
                    poller: None,
                    writer: None,
                    pending_as_of: None,
                    polls: Vec::new(),
                    sent: BTreeMap::new(),
                    cur_msg: None,
                    systime: None,
                    model: UpdaterModel::new(drift),
                    model_bound_ambiguous: false,
                    last_good: None,
                    death: None,
                    allowance: 0,
                    killed: false,
                    ended_at: None,
                    w_gen_odd: false,
                    pubs: 0,
                    msgs_delivered: 0,
                    stall_since_caught_up_ns: 0,
                });
                s.h(json!({"daemon_start": inc, "t": now}));
                return;
            }
            EvKind::ProcEnd if s.daemons.iter().any(|d| d.pid == ev.a as u32 && d.ended_at.is_none()) => {
                if let Some(di) = s.daemons.iter().position(|d| d.pid == ev.a as u32 && d.ended_at.is_none()) {
                    s.daemons[di].ended_at = Some(now);
                    let code = ev.b;
                    if code == 2 {
                        s.daemons[di].killed = true;
                    }
                    let inc = s.daemons[di].inc;
                    s.h(json!({"daemon_end": inc, "code": code, "t": now}));
                    if let (Some((t, who)), false) = (s.daemons[di].death.clone(), s.daemons[di].killed) {
                        let waited = now - t;
                        let allowance = s.daemons[di].allowance;
                        s.out.nontrivial.insert("C15");
                        s.out.probe("judged.daemon_exits_after_worker_death");
                        if waited > EXIT_BUDGET_NS + allowance {
                            s.out.violate(&["C15"], "daemon_exit_too_slow", "slow".into(), format!("{who} ended at {t}, thread_manager::run returned {waited} ns later (budget {} ns)", EXIT_BUDGET_NS + allowance));
                        }
                    }
                    if s.update_in_flight && code != 0 {
                        // the update stays in flight until a later daemon completes one
                    }
                }
                return;
            }
            _ => {}
        }
        if role != ROLE_DAEMON {
            if ev.kind == EvKind::Sigbus {
                if s.damaged_ever {
                    // the daemon truncates a file it found unusable; a client that still has the
                    // damaged file mapped takes the SIGBUS (the damage was a third party's doing)
                    s.out.probe("probe.sigbus_after_third_party_damage");
                    for c in s.clients.iter_mut().filter(|c| c.tid == ev.tid) {
                        c.call.active = false;
                    }
                } else {
                    s.out.violate(&["C04"], "sigbus", "client".into(), "an attached client touched a page beyond the end of the segment file (truncated under it): SIGBUS in production".into());
                }
                return;
            }
            if role == ROLE_PUB && ev.kind == EvKind::Store && (ev.a & 0xff) as usize == LOC_GEN {
                let odd = ev.b & 1 == 1;
                s.update_in_flight = odd;
                s.live_gen = ev.b as u16;
                if odd {
                    for c in s.clients.iter_mut() {
                        if c.call.active {
                            c.call.pub_began_during = true;
                        }
                    }
                }
            }
            return;
        }
        let Some(di) = Self::daemon_of(&mut s, pid) else { return };
        match ev.kind {
            EvKind::Point if ev.tag == "wipe:create" => {
                s.recreating = true;
                s.live_gen = 0;
                s.file_epoch += 1;
                s.out.probe("probe.daemon_recreates_the_segment_file");
                let mut under = false;
                for c in s.clients.iter_mut() {
                    if c.call.active {
                        c.call.pub_began_during = true;
                        c.call.recreated_during = true;
                        under = true;
                    }
                }
                if under {
                    s.out.probe("probe.segment_recreated_during_a_client_call");
                }
            }
            EvKind::Kill => s.daemons[di].killed = true,
            EvKind::Delay => {
                let d = &mut s.daemons[di];
                if Some(ev.tid) != d.poller {
                    d.stall_since_caught_up_ns += ev.a as i64;
                }
                if d.death.is_some() {
                    d.allowance += ev.a as i64;
                }
                if let Some(p) = d.polls.last_mut() {
                    if p.send_at.is_none() {
                        p.delayed_between = true;
                    }
                }
                if ev.a >= 1_000_000 && d.pending_as_of.is_some() {
                    s.out.probe("probe.delay_between_as_of_read_and_query_ge_1ms");
                }
            }
            EvKind::ClockRead => {
                let d = &mut s.daemons[di];
                if ev.a == libc::CLOCK_MONOTONIC_COARSE as u64 && Some(ev.tid) != d.writer {
                    d.pending_as_of = Some((ev.b as i64 as i128, ev.at));
                } else if ev.a == CLOCK_SYSTEMTIME && (Some(ev.tid) == d.writer || d.writer.is_none()) {
                    d.systime = Some(ev.b as i64 as i128);
                } else if ev.a == CLOCK_INSTANT && Some(ev.tid) == d.poller {
                    if let Some(p) = d.polls.last_mut() {
                        if p.a_hi.is_none() && p.info.as_ref().map(|i| i.tracking.is_some()).unwrap_or(false) {
                            p.a_hi = Some(ev.at);
                            let a_lo = p.r_at;
                            d.last_good = Some((a_lo, ev.at));
                        }
                    }
                }
            }
            EvKind::ClockFail => {
                s.daemons[di].pending_as_of = None;
                s.out.probe("probe.poller_clock_read_failed");
            }
            EvKind::ChronyQuery => {
                let d = &mut s.daemons[di];
                d.poller = Some(ev.tid);
                // C13/C08 liveness: every poll outcome is reported to the writer. (A handful of
                // immediate re-queries would be a legitimate retry policy; a poller that keeps
                // querying without ever reporting is not.)
                let unreported = d.polls.iter().rev().take_while(|p| p.msg.is_none()).count();
                if unreported == 16 {
                    let inc = d.inc;
                    s.out.violate(&["C13", "C08"], "poll_outcomes_never_reported", "silent".into(), format!("incarnation {inc}: 16 consecutive chronyd queries without any message to the writer"));
                }
                let d = &mut s.daemons[di];
                let as_of = d.pending_as_of.take();
                if as_of.is_none() {
                    s.out.violate(&["C12"], "query_without_prior_monotonic_read", "order".into(), "chronyd was queried without a monotonic reading having been taken first in this iteration".into());
                    let d = &mut s.daemons[di];
                    let lg = d.last_good;
                    d.polls.push(PollRec { as_of: None, q_at: now, lg_before: lg, ..Default::default() });
                } else {
                    let lg = d.last_good;
                    d.polls.push(PollRec { as_of, q_at: now, lg_before: lg, ..Default::default() });
                }
            }
            EvKind::ChronyReply => {
                let info = s.world.lock().unwrap_or_else(|e| e.into_inner()).polls.last().cloned();
                let d = &mut s.daemons[di];
                if let Some(p) = d.polls.last_mut() {
                    p.r_at = now;
                    p.info = info;
                }
            }
            EvKind::Mark if ev.tag == "poller:msg" => {
                let kind = [
                    ("ClockErrorBoundData", MsgKind::Data),
                    ("ChronyNotRespondingGracePeriod", MsgKind::ChronyGrace),
                    ("ChronyNotResponding", MsgKind::ChronyGone),
                    ("PhcErrorBoundRetrievalFailedGracePeriod", MsgKind::PhcGrace),
                    ("PhcErrorBoundRetrievalFailed", MsgKind::PhcGone),
                ]
                .iter()
                .find(|(n, _)| verif_rt::ident_hash(n) == ev.a)
                .map(|(_, k)| *k);
                let mut reassociated = false;
                let d = &mut s.daemons[di];
                // an iteration that queried chronyd more than once: a measurement message belongs
                // to the latest query of this iteration that was answered with a tracking report
                let n = d.polls.len();
                if kind == Some(MsgKind::Data) && n > 0 && !d.polls[n - 1].info.as_ref().map(|i| i.tracking.is_some()).unwrap_or(false) {
                    let mut j = n - 1;
                    while j > 0 && d.polls[j - 1].send_at.is_none() && d.polls[j - 1].msg.is_none() {
                        j -= 1;
                        if d.polls[j].info.as_ref().map(|i| i.tracking.is_some()).unwrap_or(false) {
                            let e = d.polls[j].clone();
                            let last = &mut d.polls[n - 1];
                            last.as_of = e.as_of;
                            last.q_at = e.q_at;
                            last.r_at = e.r_at;
                            last.info = e.info;
                            if last.a_hi.is_none() {
                                last.a_hi = e.a_hi;
                            }
                            reassociated = true;
                            break;
                        }
                    }
                }
                if let Some(p) = d.polls.last_mut() {
                    p.msg = kind;
                    p.msg_at = now;
                }
                if reassociated {
                    s.out.probe("probe.message_from_an_earlier_query_of_the_iteration");
                }
            }
            EvKind::Send => {
                let d = &mut s.daemons[di];
                if Some(ev.tid) == d.poller && d.death.is_none() {
                    let n = d.polls.len();
                    if n > 0 && d.polls[n - 1].msg.is_some() && d.polls[n - 1].send_at.is_none() {
                        d.polls[n - 1].send_at = Some(now);
                        d.sent.insert((ev.a, ev.b), n - 1);
                        // C08 liveness: outcomes are published, not piled up (injected stalls are at
                        // most 5 s, i.e. a backlog of a handful of 1 s polls)
                        let backlog = d.sent.len().saturating_sub(d.pubs);
                        let allowed = 15 + (d.stall_since_caught_up_ns / 1_000_000_000) as usize * 2;
                        if backlog == allowed && d.death.is_none() && !d.killed {
                            let inc = d.inc;
                            s.out.violate(&["C08", "C04"], "outcomes_pile_up_unpublished", "backlog".into(), format!("incarnation {inc}: {backlog} poll outcomes have been sent to the writer and not published (writer stuck in start-up or not consuming)"));
                        }
                    }
                }
            }
            EvKind::Recv => {
                let d = &mut s.daemons[di];
                if ev.tid == d.main_tid {
                    // death notifications to the main thread
                } else if let Some(&pi) = d.sent.get(&(ev.a, ev.b)) {
                    d.writer = Some(ev.tid);
                    if d.cur_msg.is_some() {
                        // the previous outcome was consumed without a publication (C08: every
                        // outcome results in a publication)
                        let inc = d.inc;
                        s.out.violate(&["C08"], "outcome_without_publication", "skipped".into(), format!("incarnation {inc}: the writer took the next outcome although the previous one had not been published"));
                        // C09: a restarted daemon that has handled a non-synchronised outcome and
                        // published nothing leaves the earlier life's trusted record in place
                        let d = &s.daemons[di];
                        let prev_kind = d.cur_msg.and_then(|i| d.polls.get(i)).and_then(|p| p.msg);
                        let none_yet = d.pubs == 0 && !d.model.seen_sync;
                        if none_yet && matches!(prev_kind, Some(k) if k != MsgKind::Data) {
                            if let Some(p) = s.pubs.last().filter(|p| p.inc != inc && p.epoch == s.file_epoch && p.rec.status != 0).cloned() {
                                s.out.violate(&["C09"], "earlier_life_trust_not_retracted", format!("status={}", status_name(p.rec.status)), format!("incarnation {inc} consumed a {:?} outcome before any synchronised report and published nothing: the segment still carries incarnation {}'s record {:?}", prev_kind.unwrap(), p.inc, p.rec));
                            }
                        }
                    }
                    let d = &mut s.daemons[di];
                    d.cur_msg = Some(pi);
                    d.systime = None;
                    d.msgs_delivered += 1;
                }
            }
            EvKind::Store => {
                let loc = (ev.a & 0xff) as usize;
                let seg = (ev.a >> 8) as usize;
                if loc == LOC_GEN {
                    let odd = ev.b & 1 == 1;
                    s.daemons[di].writer = Some(ev.tid);
                    s.update_in_flight = odd;
                    s.live_gen = ev.b as u16;
                    if odd {
                        for c in s.clients.iter_mut() {
                            if c.call.active {
                                c.call.pub_began_during = true;
                            }
                        }
                    } else if s.daemons[di].w_gen_odd {
                        // publication complete: decode the record from the coherence-newest values
                        let g = |l: usize| v.newest(seg, l);
                        let rec = PRecord {
                            as_of_s: g(3) as i64,
                            as_of_ns: g(4) as i64,
                            void_s: g(5) as i64,
                            void_ns: g(6) as i64,
                            bound: g(7) as i64,
                            drift: g(8) as u32,
                            reserved: g(9) as u32,
                            status: g(10) as u32 as i32,
                        };
                        // C17 (layout): what a third-party reader decodes from the file with the
                        // offsets of PROTOCOL.md must be this record, under a conforming header
                        let bytes = pread_fd(v.seg_fd(seg), P_TOTAL);
                        let doc = decode_segment(&bytes);
                        if bytes.len() >= P_TOTAL {
                            s.out.probe("judged.daemon_file_decoded_per_protocol_md");
                            if doc.rec != rec || doc.magic0 != P_MAGIC0 || doc.magic1 != P_MAGIC1 || doc.version == 0 || doc.generation as u64 != ev.b || (doc.segsize as usize) < P_TOTAL || !(0..=2).contains(&doc.rec.status) {
                                s.out.violate(&["C17"], "daemon_file_layout", "layout".into(), format!("file bytes decoded per PROTOCOL.md give {doc:?}, the daemon published {rec:?} with generation {}", ev.b));
                            }
                        }
                        s.on_publication(di, rec, now);
                    }
                    s.daemons[di].w_gen_odd = odd;
                }
            }
            EvKind::InjPanic => {
                let d = &mut s.daemons[di];
                if d.death.is_none() {
                    d.death = Some((now, format!("worker (injected failure at {})", ev.tag)));
                }
                s.out.probe(&format!("site.panic.{}", ev.tag));
            }
            EvKind::Finish => {
                // a thread of a live daemon process ended: worker death unless the process was killed
                let d = &mut s.daemons[di];
                if ev.a != 2 && !d.killed && d.death.is_none() {
                    let who = if Some(ev.tid) == d.poller { "poller" } else if Some(ev.tid) == d.writer { "writer" } else { "worker" };
                    d.death = Some((now, format!("{who} thread ({})", if ev.a == 1 { "panicked" } else { "returned" })));
                }
            }
            EvKind::IoErr => s.out.probe(&format!("fault.io_error.{}", ev.tag)),
            _ => {}
        }
        // abstract state: (chronyd mode, FSM status published last, grace flag, record age class, in-flight)
        if matches!(ev.kind, EvKind::Store | EvKind::ChronyReply | EvKind::Recv) {
            let mode = s.world.lock().map(|w| w.mode as u64).unwrap_or(0);
            let last = s.pubs.last().map(|p| p.rec.status as u64 + 1).unwrap_or(0);
            let age = s.pubs.last().map(|p| ((now as i128 - ts_ns(p.rec.as_of_s, p.rec.as_of_ns)) / NS).clamp(0, 1001)).unwrap_or(0);
            let age_class = match age {
                0..=4 => 0u64,
                5..=999 => 1,
                _ => 2,
            };
            let seen = s.daemons[di].model.seen_sync as u64;
            let hsh = (((mode * 8 + last) * 4 + age_class) * 2 + seen) * 2 + s.update_in_flight as u64;
            s.out.states.insert(hsh);
        }
        let _ = (Mode::Sync, ErrKind::Syscall, models::NS);
    }
}
