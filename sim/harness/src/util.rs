//! Small shared helpers: PRNG, violations, fd hygiene, sandbox, segment decoding per PROTOCOL.md.

use serde_json::{json, Value};
use std::collections::{BTreeMap, BTreeSet};
use std::path::{Path, PathBuf};

#[derive(Clone)]
pub struct Rng(pub u64);

impl Rng {
    pub fn new(seed: u64) -> Rng {
        let mut r = Rng(seed ^ 0x5DEECE66D);
        r.next();
        r
    }
    pub fn next(&mut self) -> u64 {
        verif_rt::splitmix(&mut self.0)
    }
    pub fn below(&mut self, n: u64) -> u64 {
        if n == 0 {
            0
        } else {
            self.next() % n
        }
    }
    pub fn range(&mut self, lo: i64, hi: i64) -> i64 {
        lo + self.below((hi - lo + 1) as u64) as i64
    }
    pub fn chance(&mut self, pct: u32) -> bool {
        self.below(100) < pct as u64
    }
    pub fn pick<'a, T>(&mut self, xs: &'a [T]) -> &'a T {
        &xs[self.below(xs.len() as u64) as usize]
    }
    pub fn fork(&mut self) -> Rng {
        Rng::new(self.next())
    }
}

pub fn mix(a: u64, b: u64) -> u64 {
    let mut x = a ^ b.wrapping_mul(0x9E3779B97F4A7C15);
    verif_rt::splitmix(&mut x)
}

pub fn str_hash(s: &str) -> u64 {
    let mut h = 0xcbf29ce484222325u64;
    for b in s.bytes() {
        h = (h ^ b as u64).wrapping_mul(0x100000001b3);
    }
    h
}

#[derive(Clone, Debug)]
pub struct Violation {
    /// property ids this violation counts against
    pub props: Vec<&'static str>,
    pub oracle: &'static str,
    /// discriminating signature (stable across schedules): used for minimisation and for
    /// matching against known findings
    pub sig: String,
    pub detail: String,
}

impl Violation {
    pub fn to_json(&self) -> Value {
        json!({"props": self.props, "oracle": self.oracle, "sig": self.sig, "detail": self.detail})
    }
}

/// What one simulated run produced, as seen by the orchestrator.
#[derive(Default)]
pub struct Outcome {
    pub violations: Vec<Violation>,
    /// counters measured by the oracles (probes, judged calls, …); fault counters come from the engine
    pub probes: BTreeMap<String, u64>,
    /// property ids for which this run was non-trivial by that property's rule
    pub nontrivial: BTreeSet<&'static str>,
    /// abstract states visited
    pub states: BTreeSet<u64>,
    pub sample: Option<Value>,
    pub harness_errors: Vec<String>,
    /// named sets of values covered (e.g. leap-status values classified, generation start values)
    pub sets: BTreeMap<&'static str, BTreeSet<u64>>,
}

impl Outcome {
    pub fn probe(&mut self, name: &str) {
        *self.probes.entry(name.to_string()).or_insert(0) += 1;
    }
    pub fn cover(&mut self, set: &'static str, v: u64) {
        self.sets.entry(set).or_default().insert(v);
    }
    pub fn probe_n(&mut self, name: &str, n: u64) {
        *self.probes.entry(name.to_string()).or_insert(0) += n;
    }
    pub fn violate(&mut self, props: &[&'static str], oracle: &'static str, sig: String, detail: String) {
        if self.violations.len() < 64 {
            self.violations.push(Violation { props: props.to_vec(), oracle, sig, detail });
        }
    }
}

pub fn open_fds() -> BTreeSet<i32> {
    std::fs::read_dir("/proc/self/fd")
        .map(|d| d.filter_map(|e| e.ok()?.file_name().to_str()?.parse().ok()).collect())
        .unwrap_or_default()
}

/// Close descriptors that finished incarnations left open, as process exit would.
pub fn close_leaked_fds(base: &BTreeSet<i32>) {
    for fd in open_fds() {
        if !base.contains(&fd) {
            unsafe { libc::close(fd) };
        }
    }
}

pub struct Sandbox {
    pub root: PathBuf,
}

/// Remove sandbox directories left behind by processes that no longer exist (killed workers).
pub fn sweep_stale_sandboxes() {
    let Ok(rd) = std::fs::read_dir("/dev/shm") else { return };
    for e in rd.flatten() {
        let name = e.file_name();
        let Some(name) = name.to_str() else { continue };
        if let Some(pid) = name.strip_prefix("cbverif.").and_then(|p| p.parse::<i32>().ok()) {
            if !Path::new(&format!("/proc/{pid}")).exists() {
                let _ = std::fs::remove_dir_all(e.path());
            }
        }
    }
}

impl Sandbox {
    pub fn new() -> Sandbox {
        let root = PathBuf::from(format!("/dev/shm/cbverif.{}", std::process::id()));
        let _ = std::fs::remove_dir_all(&root);
        std::fs::create_dir_all(&root).expect("create sandbox");
        Sandbox { root }
    }
    /// A fresh, empty directory for one run.
    pub fn fresh(&self) -> PathBuf {
        let d = self.root.join("run");
        let _ = std::fs::remove_dir_all(&d);
        std::fs::create_dir_all(&d).expect("create run dir");
        d
    }
}

impl Drop for Sandbox {
    fn drop(&mut self) {
        let _ = std::fs::remove_dir_all(&self.root);
    }
}

// ---------------------------------------------------------------------------------------------
// Independent decoder of the segment bytes. Offsets, widths and encodings below are transcribed
// from docs/PROTOCOL.md (diagram + field descriptions), NOT from the Rust structs.
// ---------------------------------------------------------------------------------------------

pub const P_MAGIC0: u32 = 0x414D5A4E; // bytes 0x41 0x4D 0x5A 0x4E read as a native-endian word per the diagram
pub const P_MAGIC1: u32 = 0x43420200;
pub const P_OFF_MAGIC: usize = 0; // 8 bytes
pub const P_OFF_SEGSIZE: usize = 8; // u32
pub const P_OFF_VERSION: usize = 12; // u16
pub const P_OFF_GENERATION: usize = 14; // u16
pub const P_OFF_AS_OF: usize = 16; // i64, i64
pub const P_OFF_VOID_AFTER: usize = 32; // i64, i64
pub const P_OFF_BOUND: usize = 48; // i64
pub const P_OFF_MAX_DRIFT: usize = 56; // u32
pub const P_OFF_RESERVED: usize = 60; // u32
pub const P_OFF_STATUS: usize = 64; // i32
pub const P_TOTAL: usize = 72; // including 4 bytes of padding

#[derive(Clone, Copy, Debug, PartialEq, Eq, Default)]
pub struct PRecord {
    pub as_of_s: i64,
    pub as_of_ns: i64,
    pub void_s: i64,
    pub void_ns: i64,
    pub bound: i64,
    pub drift: u32,
    pub reserved: u32,
    pub status: i32,
}

#[derive(Clone, Copy, Debug, PartialEq, Eq, Default)]
pub struct PSegment {
    pub len: usize,
    pub magic0: u32,
    pub magic1: u32,
    pub segsize: u32,
    pub version: u16,
    pub generation: u16,
    pub rec: PRecord,
}

fn rd<const N: usize>(b: &[u8], o: usize) -> [u8; N] {
    let mut x = [0u8; N];
    if o + N <= b.len() {
        x.copy_from_slice(&b[o..o + N]);
    }
    x
}

pub fn decode_segment(b: &[u8]) -> PSegment {
    PSegment {
        len: b.len(),
        magic0: u32::from_ne_bytes(rd(b, P_OFF_MAGIC)),
        magic1: u32::from_ne_bytes(rd(b, P_OFF_MAGIC + 4)),
        segsize: u32::from_ne_bytes(rd(b, P_OFF_SEGSIZE)),
        version: u16::from_ne_bytes(rd(b, P_OFF_VERSION)),
        generation: u16::from_ne_bytes(rd(b, P_OFF_GENERATION)),
        rec: PRecord {
            as_of_s: i64::from_ne_bytes(rd(b, P_OFF_AS_OF)),
            as_of_ns: i64::from_ne_bytes(rd(b, P_OFF_AS_OF + 8)),
            void_s: i64::from_ne_bytes(rd(b, P_OFF_VOID_AFTER)),
            void_ns: i64::from_ne_bytes(rd(b, P_OFF_VOID_AFTER + 8)),
            bound: i64::from_ne_bytes(rd(b, P_OFF_BOUND)),
            drift: u32::from_ne_bytes(rd(b, P_OFF_MAX_DRIFT)),
            reserved: u32::from_ne_bytes(rd(b, P_OFF_RESERVED)),
            status: i32::from_ne_bytes(rd(b, P_OFF_STATUS)),
        },
    }
}

pub fn encode_segment(s: &PSegment) -> Vec<u8> {
    let mut b = vec![0u8; P_TOTAL];
    b[0..4].copy_from_slice(&s.magic0.to_ne_bytes());
    b[4..8].copy_from_slice(&s.magic1.to_ne_bytes());
    b[8..12].copy_from_slice(&s.segsize.to_ne_bytes());
    b[12..14].copy_from_slice(&s.version.to_ne_bytes());
    b[14..16].copy_from_slice(&s.generation.to_ne_bytes());
    b[16..24].copy_from_slice(&s.rec.as_of_s.to_ne_bytes());
    b[24..32].copy_from_slice(&s.rec.as_of_ns.to_ne_bytes());
    b[32..40].copy_from_slice(&s.rec.void_s.to_ne_bytes());
    b[40..48].copy_from_slice(&s.rec.void_ns.to_ne_bytes());
    b[48..56].copy_from_slice(&s.rec.bound.to_ne_bytes());
    b[56..60].copy_from_slice(&s.rec.drift.to_ne_bytes());
    b[60..64].copy_from_slice(&s.rec.reserved.to_ne_bytes());
    b[64..68].copy_from_slice(&s.rec.status.to_ne_bytes());
    b
}

/// The documented validity predicate for opening a segment (C16): magic, non-zero version,
/// non-zero generation, declared size large enough for header plus record; the file must hold
/// at least the 16-byte header.
pub fn documented_valid(b: &[u8]) -> bool {
    if b.len() < 16 {
        return false;
    }
    let s = decode_segment(b);
    s.magic0 == P_MAGIC0 && s.magic1 == P_MAGIC1 && s.version != 0 && s.generation != 0 && s.segsize as usize >= 16 + 56
}

pub fn read_file_bytes(p: &Path) -> Option<Vec<u8>> {
    std::fs::read(p).ok()
}

pub fn pread_fd(fd: i32, n: usize) -> Vec<u8> {
    let mut buf = vec![0u8; n];
    let r = unsafe { libc::pread(fd, buf.as_mut_ptr().cast(), n, 0) };
    if r < 0 {
        buf.clear();
    } else {
        buf.truncate(r as usize);
    }
    buf
}

/// Decode a `ClockErrorBound` value as returned by the code under test into the documented
/// fields (the struct's fields are private; it is `repr(C)` and 56 bytes).
pub fn decode_ceb(c: &clock_bound_shm::ClockErrorBound) -> PRecord {
    let mut raw = [0u8; 72];
    assert_eq!(std::mem::size_of::<clock_bound_shm::ClockErrorBound>(), 56);
    unsafe {
        std::ptr::copy_nonoverlapping(c as *const _ as *const u8, raw.as_mut_ptr().add(16), 56);
    }
    decode_segment(&raw).rec
}

pub fn status_of(i: i32) -> clock_bound_shm::ClockStatus {
    match i {
        1 => clock_bound_shm::ClockStatus::Synchronized,
        2 => clock_bound_shm::ClockStatus::FreeRunning,
        _ => clock_bound_shm::ClockStatus::Unknown,
    }
}

pub fn make_ceb(r: &PRecord) -> clock_bound_shm::ClockErrorBound {
    clock_bound_shm::ClockErrorBound::new(
        libc::timespec { tv_sec: r.as_of_s, tv_nsec: r.as_of_ns },
        libc::timespec { tv_sec: r.void_s, tv_nsec: r.void_ns },
        r.bound,
        r.drift,
        r.reserved,
        status_of(r.status),
    )
}

pub fn rle(d: &[u32]) -> String {
    let mut out = String::new();
    let mut i = 0;
    while i < d.len() {
        let v = d[i];
        let mut j = i;
        while j < d.len() && d[j] == v {
            j += 1;
        }
        if !out.is_empty() {
            out.push(',');
        }
        if j - i > 1 {
            out.push_str(&format!("{}*{}", v, j - i));
        } else {
            out.push_str(&format!("{}", v));
        }
        i = j;
    }
    out
}

pub fn unrle(s: &str) -> Vec<u32> {
    let mut out = Vec::new();
    for part in s.split(',') {
        let part = part.trim();
        if part.is_empty() {
            continue;
        }
        if let Some((v, n)) = part.split_once('*') {
            let v: u32 = v.parse().unwrap_or(0);
            let n: usize = n.parse().unwrap_or(1);
            out.extend(std::iter::repeat(v).take(n));
        } else {
            out.push(part.parse().unwrap_or(0));
        }
    }
    out
}
