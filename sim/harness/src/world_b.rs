//! World B — the daemon pipeline under virtual time (stub; implemented next).
use crate::util::*;
use serde_json::{json, Value};
use std::path::Path;

#[derive(Clone, Copy, Debug, PartialEq)]
pub enum Profile {
    Pipeline,
}
impl Profile {
    pub fn parse(_s: &str) -> Option<Profile> {
        Some(Profile::Pipeline)
    }
}
#[derive(Clone, Debug)]
pub struct BCfg {}
impl BCfg {
    pub fn to_json(&self) -> Value {
        json!({})
    }
    pub fn from_json(_v: &Value) -> BCfg {
        BCfg {}
    }
}
pub fn gen_config(_p: Profile, _seed: u64, _i: u64) -> BCfg {
    BCfg {}
}
pub struct BRun {
    pub outcome: Outcome,
    pub report: verif_rt::RunReport,
}
pub fn run(_c: &BCfg, _seed: u64, _replay: Option<Vec<u32>>, _trace: bool, _sb: &Path) -> BRun {
    BRun { outcome: Outcome::default(), report: Default::default() }
}
pub fn shrink(_c: &BCfg) -> Vec<BCfg> {
    vec![]
}
pub fn rule_text(_p: &str) -> String {
    String::new()
}
