//! World B — the daemon pipeline under virtual time (DESIGN.md §6).
//!
//! Real `thread_manager::run` (poller thread, writer thread, FSM, ShmWriter) driven by a scripted
//! chronyd and a world model of the oscillator, with real clients (Rust client, raw reader + law,
//! C client through clockbound.h) asking at chosen virtual instants.
//! Oracles: C01 C05 C06 C07 C08 C09 C10 C12 C13 C14 C15 C17(ABI) and the daemon-level part of C04.

use crate::models::{self, ErrKind, MsgKind, Status, NS};
use crate::util::*;
use crate::world_a::Corrupt;
use serde_json::{json, Value};

#[path = "world_b_cfg.rs"]
mod cfg;
#[path = "world_b_world.rs"]
mod world;
#[path = "world_b_oracle.rs"]
mod oracle;
#[path = "world_b_run.rs"]
mod runner;

pub use cfg::{gen_config, shrink, BCfg, Profile};
pub use runner::{run, BRun};

pub const ROLE_HOST: u8 = 0;
pub const ROLE_DAEMON: u8 = 1;
pub const ROLE_CLIENT: u8 = 2;
pub const ROLE_PUB: u8 = 3;

pub const PHC_REFID: u32 = 0x50484330; // "PHC0"
/// refclock names a run may configure (the daemon's value goes through its own parser,
/// `clock_bound_d::refid_to_u32`; chronyd's and the oracle's through `phc_refid_of`)
pub const PHC_NAMES: [&str; 8] = ["PHC0", "PHC0", "PHC", "EC2", "FACE", "0", "AC1", "P"];
/// chrony's encoding of a refclock name: the ASCII characters, right-aligned in a big-endian word
pub fn phc_refid_of(idx: u8) -> u32 {
    PHC_NAMES[idx as usize % PHC_NAMES.len()].bytes().fold(0u32, |acc, b| (acc << 8) | b as u32)
}

pub fn rule_text(prop: &str) -> String {
    let common = "Cases are simulated runs of the daemon pipeline under virtual time: the real thread_manager::run (poller, writer, FSM, ShmWriter) polls a scripted chronyd whose reports are valid at their reply instant against a world model of the oscillator (drift within the configured rate), is killed/restarted or loses worker threads per a seeded fault plan, while real clients (ClockBoundClient, raw ShmReader + ClockErrorBound::now, C client via clockbound.h) ask at seeded, threshold-biased instants; scheduling, step delays, coarse-clock tick and lag come from a seeded scheduler. Two runs are distinct when the hash of their sequence of (thread role, operation, location) differs. ";
    let nt = match prop {
        "C01" => "Non-trivial: at least one client call returned Synchronized or FreeRunning and was judged against true time.",
        "C04" => "Non-trivial (world B part): a daemon incarnation was killed and an attached client later obtained a record of a restarted incarnation.",
        "C05" => "Non-trivial: at least one interval was compared with the exact growth law on a record with non-zero age.",
        "C06" => "Non-trivial: at least one call was judged with its monotonic reading at or beyond as_of + 5 s, or on a stored status other than Synchronized.",
        "C07" => "Non-trivial: at least one synchronised report with a negative offset, or a sub-nanosecond fraction, or a PHC bound was published and compared with the exact formula.",
        "C08" => "Non-trivial: the history contained a synchronised report followed by at least one non-synchronised outcome that was published.",
        "C09" => "Non-trivial: at least one record was published before the incarnation's first synchronised report.",
        "C10" => "Non-trivial: at least one report other than (leap 0..2, fresh) was classified, or one within one interval of the eight-interval threshold.",
        "C12" => "Non-trivial: a delay of at least 1 ms fell between the two ordered steps on either side (as-of read and query, or realtime and monotonic read).",
        "C13" => "Non-trivial: at least one poll without usable answer (silence, absence, non-tracking reply, unreadable PHC) was classified against the 5 s grace period.",
        "C14" => "Non-trivial: a call with the monotonic reading before as-of, or a drift at/above the malformed threshold, or a failing clock_gettime, was judged.",
        "C15" => "Non-trivial: a worker thread of the daemon terminated or panicked while the daemon was running.",
        "C17" => "Non-trivial (world B part): at least one paired observation (Rust client and C client on the same segment inside one frozen step) was compared.",
        _ => "",
    };
    format!("{common}{nt}")
}

#[allow(unused_imports)]
use {json as _json_unused, Value as _ValueUnused};
#[allow(dead_code)]
fn _unused(_: ErrKind, _: MsgKind, _: Status, _: Corrupt) -> i128 {
    NS + models::NS - NS
}
