//! World B configuration: knobs of one run (everything else derives from `world_seed`).

use crate::util::*;
use crate::world_a::Corrupt;
use serde_json::{json, Value};

#[derive(Clone, Copy, Debug, PartialEq)]
pub enum Profile {
    /// healthy-to-mixed chrony history, clients of all kinds, scheduling delays
    Pipeline,
    /// daemon kills and restarts (and pre-existing segment states)
    Restart,
    /// tight reports, extreme drift directions, long delays between ordered clock reads
    Tight,
    /// silences / absences / PHC failures around the 5 s grace period
    Outage,
    /// daemon (re)starts while chronyd is not synchronised, low uptimes
    Coldstart,
    /// worker thread deaths at every fault point
    Workerdeath,
    /// synthetic publisher: arbitrary records and exact clock placement (client laws)
    Synthetic,
    /// extreme report values for the bound formula
    Formula,
    /// leap status sweep and reference-time ages around the thresholds
    Leap,
    /// paired Rust/C observations
    Abi,
    /// one outage as long as the wrap-around points of common time representations
    /// (2^32 us, 2^16 s, 2^31 ms, 2^32 ms): timers must not come back to life (C13)
    Epoch,
}

impl Profile {
    pub fn parse(s: &str) -> Option<Profile> {
        Some(match s {
            "pipeline" => Profile::Pipeline,
            "restart" => Profile::Restart,
            "tight" => Profile::Tight,
            "outage" => Profile::Outage,
            "coldstart" => Profile::Coldstart,
            "workerdeath" => Profile::Workerdeath,
            "synthetic" => Profile::Synthetic,
            "formula" => Profile::Formula,
            "leap" => Profile::Leap,
            "abi" => Profile::Abi,
            "epoch" => Profile::Epoch,
            _ => return None,
        })
    }
    pub fn name(&self) -> &'static str {
        match self {
            Profile::Pipeline => "pipeline",
            Profile::Restart => "restart",
            Profile::Tight => "tight",
            Profile::Outage => "outage",
            Profile::Coldstart => "coldstart",
            Profile::Workerdeath => "workerdeath",
            Profile::Synthetic => "synthetic",
            Profile::Formula => "formula",
            Profile::Leap => "leap",
            Profile::Abi => "abi",
            Profile::Epoch => "epoch",
        }
    }
}

#[derive(Clone, Debug)]
pub struct DInc {
    pub kill_at: Option<u32>,
    /// index of the fault_point occurrence at which a worker panics
    pub panic_at: Option<u32>,
    pub io_err: Option<(u32, u32)>,
    pub restart_delay_ns: i64,
    /// a third party overwrites a magic word of the segment file right before this incarnation
    /// starts (clients may have the file mapped)
    pub damage_before: bool,
    /// the segment file is removed right before this incarnation starts (the daemon creates a
    /// new one; clients that had the old one mapped keep it)
    pub delete_before: bool,
}

#[derive(Clone, Debug)]
pub struct CCfg {
    /// 0 ClockBoundClient::new (default path), 1 new_with_path, 2 raw reader + law, 3 C client
    pub kind: u8,
    pub calls: u32,
    pub threshold_pct: u32,
    pub start_ns: i64,
}

#[derive(Clone, Debug)]
pub struct BCfg {
    pub profile: String,
    pub world_seed: u64,
    pub drift_ppb: u32,
    pub tick_ns: i64,
    pub start_mono_ns: i64,
    pub t0_ns: i64,
    pub horizon_ns: i64,
    pub weak: bool,
    pub stale_ppm: u32,
    pub switch_ppm: u32,
    pub step_cost_ns: i64,
    pub delay_ppm: u32,
    pub clock_lag_ppm: u32,
    pub clock_lag_max_ns: i64,
    pub clock_read_cost_ns: i64,
    pub clock_fail_ppm: u32,
    /// 0 none, 1 configured and chronyd's reference matches, 2 configured but other reference,
    /// 3 matching with file faults (missing / garbage)
    pub phc: u8,
    pub phc_name: u8,
    /// chronyd script style, see world_b_world.rs
    pub script: u8,
    pub tight_pct: u32,
    pub daemon: Vec<DInc>,
    pub init_file: Corrupt,
    pub clients: Vec<CCfg>,
    pub synthetic_cases: u32,
    pub pairs: u32,
    pub leap_base: u32,
    pub hash_seed: u64,
    pub max_steps: u64,
}

fn opt_u(v: &Value) -> Option<u32> {
    v.as_u64().map(|x| x as u32)
}

impl BCfg {
    pub fn to_json(&self) -> Value {
        json!({
            "profile": self.profile, "world_seed": self.world_seed, "drift_ppb": self.drift_ppb, "tick_ns": self.tick_ns,
            "start_mono_ns": self.start_mono_ns, "t0_ns": self.t0_ns, "horizon_ns": self.horizon_ns, "weak": self.weak, "stale_ppm": self.stale_ppm,
            "switch_ppm": self.switch_ppm, "step_cost_ns": self.step_cost_ns, "delay_ppm": self.delay_ppm, "clock_lag_ppm": self.clock_lag_ppm,
            "clock_lag_max_ns": self.clock_lag_max_ns, "clock_read_cost_ns": self.clock_read_cost_ns, "clock_fail_ppm": self.clock_fail_ppm, "phc": self.phc, "phc_name": self.phc_name, "script": self.script, "tight_pct": self.tight_pct,
            "daemon": self.daemon.iter().map(|d| json!({"kill_at": d.kill_at, "panic_at": d.panic_at, "io_err": d.io_err.map(|(a, b)| vec![a, b]), "restart_delay_ns": d.restart_delay_ns, "damage_before": d.damage_before, "delete_before": d.delete_before})).collect::<Vec<_>>(),
            "init_file": crate::world_a::corrupt_to_json(&self.init_file),
            "clients": self.clients.iter().map(|c| json!({"kind": c.kind, "calls": c.calls, "threshold_pct": c.threshold_pct, "start_ns": c.start_ns})).collect::<Vec<_>>(),
            "synthetic_cases": self.synthetic_cases, "pairs": self.pairs, "leap_base": self.leap_base, "hash_seed": self.hash_seed, "max_steps": self.max_steps,
        })
    }

    pub fn from_json(v: &Value) -> BCfg {
        let u = |x: &Value| x.as_u64().unwrap_or(0);
        let i = |x: &Value| x.as_i64().unwrap_or(0);
        BCfg {
            profile: v["profile"].as_str().unwrap_or("pipeline").to_string(),
            world_seed: u(&v["world_seed"]),
            drift_ppb: u(&v["drift_ppb"]) as u32,
            tick_ns: i(&v["tick_ns"]),
            start_mono_ns: i(&v["start_mono_ns"]),
            t0_ns: i(&v["t0_ns"]),
            horizon_ns: i(&v["horizon_ns"]),
            weak: v["weak"].as_bool().unwrap_or(false),
            stale_ppm: u(&v["stale_ppm"]) as u32,
            switch_ppm: u(&v["switch_ppm"]) as u32,
            step_cost_ns: i(&v["step_cost_ns"]),
            delay_ppm: u(&v["delay_ppm"]) as u32,
            clock_lag_ppm: u(&v["clock_lag_ppm"]) as u32,
            clock_lag_max_ns: i(&v["clock_lag_max_ns"]),
            clock_read_cost_ns: v["clock_read_cost_ns"].as_i64().unwrap_or(0),
            clock_fail_ppm: u(&v["clock_fail_ppm"]) as u32,
            phc: u(&v["phc"]) as u8,
            phc_name: v["phc_name"].as_u64().unwrap_or(0) as u8,
            script: u(&v["script"]) as u8,
            tight_pct: u(&v["tight_pct"]) as u32,
            daemon: v["daemon"]
                .as_array()
                .map(|a| {
                    a.iter()
                        .map(|d| DInc { kill_at: opt_u(&d["kill_at"]), panic_at: opt_u(&d["panic_at"]), io_err: d["io_err"].as_array().map(|p| (u(&p[0]) as u32, u(&p[1]) as u32)), restart_delay_ns: i(&d["restart_delay_ns"]), damage_before: d["damage_before"].as_bool().unwrap_or(false), delete_before: d["delete_before"].as_bool().unwrap_or(false) })
                        .collect()
                })
                .unwrap_or_default(),
            init_file: crate::world_a::corrupt_from_json(&v["init_file"]),
            clients: v["clients"]
                .as_array()
                .map(|a| a.iter().map(|c| CCfg { kind: u(&c["kind"]) as u8, calls: u(&c["calls"]) as u32, threshold_pct: u(&c["threshold_pct"]) as u32, start_ns: i(&c["start_ns"]) }).collect())
                .unwrap_or_default(),
            synthetic_cases: u(&v["synthetic_cases"]) as u32,
            pairs: u(&v["pairs"]) as u32,
            leap_base: u(&v["leap_base"]) as u32,
            hash_seed: u(&v["hash_seed"]),
            max_steps: u(&v["max_steps"]),
        }
    }
}

const SEC: i64 = 1_000_000_000;

pub fn gen_config(profile: Profile, run_seed: u64, index: u64) -> BCfg {
    let mut r = Rng::new(mix(run_seed, 0xB0B));
    let drift = *r.pick(&[1_000u32, 10_000, 50_000, 50_000, 100_000, 500_000, 0, 1, 123_457, 999_999_999]);
    let tick = *r.pick(&[1i64, 1_000_000, 4_000_000, 4_000_000, 10_000_000]);
    let mut c = BCfg {
        profile: profile.name().to_string(),
        world_seed: r.next(),
        drift_ppb: drift,
        tick_ns: tick,
        start_mono_ns: match r.below(4) {
            0 => r.range(300_000_000, 990 * SEC),
            1 => r.range(1_000 * SEC, 5_000 * SEC),
            _ => r.range(5_000 * SEC, 1_000_000 * SEC),
        },
        t0_ns: 1_700_000_000 * SEC + r.range(0, 100_000_000 * SEC),
        horizon_ns: r.range(20, 90) * SEC,
        weak: r.chance(15),
        stale_ppm: 200_000,
        switch_ppm: *r.pick(&[300_000u32, 100_000, 30_000]),
        step_cost_ns: *r.pick(&[20i64, 100, 500]),
        delay_ppm: *r.pick(&[0u32, 300, 1_500, 5_000]),
        clock_lag_ppm: if r.chance(30) { 50_000 } else { 0 },
        clock_lag_max_ns: 50_000,
        clock_read_cost_ns: 0,
        clock_fail_ppm: if r.chance(15) { 3_000 } else { 0 },
        phc: *r.pick(&[0u8, 0, 1, 2, 3, 4]),
        phc_name: r.below(8) as u8,
        script: 1,
        tight_pct: 30,
        daemon: vec![DInc { kill_at: None, panic_at: None, io_err: None, restart_delay_ns: r.range(0, 30) * SEC, damage_before: false, delete_before: false }],
        init_file: Corrupt::None,
        clients: Vec::new(),
        synthetic_cases: 0,
        pairs: 0,
        leap_base: 0,
        hash_seed: r.next(),
        max_steps: 400_000,
    };
    if !c.weak {
        c.stale_ppm = 0;
    }
    let nclients = r.range(1, 3) as usize;
    for _ in 0..nclients {
        c.clients.push(CCfg { kind: r.below(4) as u8, calls: r.range(4, 30) as u32, threshold_pct: 50, start_ns: r.range(0, 5 * SEC) });
    }
    // make sure the raw kind (which knows the record it used) is present most of the time
    if r.chance(70) && !c.clients.iter().any(|x| x.kind == 2) {
        c.clients[0].kind = 2;
    }
    match profile {
        Profile::Pipeline => {
            c.script = *r.pick(&[0u8, 1, 1, 1]);
            if r.chance(12) {
                c.horizon_ns = r.range(300, 2600) * SEC;
                c.max_steps = 1_500_000;
            }
        }
        Profile::Restart => {
            c.script = *r.pick(&[0u8, 1, 3]);
            c.init_file = match r.below(6) {
                0 | 1 => Corrupt::None,
                2 | 3 => Corrupt::SetValid { gen: *r.pick(&[2u16, 3, 65534, 65535, 7, 100]) },
                4 => Corrupt::HeaderOnly { gen: 0 },
                _ => Corrupt::Truncate { len: r.range(0, 15) as u32 },
            };
            let n = r.range(2, 4) as usize;
            c.daemon.clear();
            for _ in 0..n {
                // ~60 scheduling points per poll-second
                let kill = if r.chance(75) { Some(r.below(60 * 25) as u32) } else { None };
                let damage = !c.daemon.is_empty() && r.chance(25);
                c.daemon.push(DInc { kill_at: kill, panic_at: None, io_err: None, restart_delay_ns: r.range(0, 12) * SEC, damage_before: damage, delete_before: false });
            }
            c.horizon_ns = r.range(40, 120) * SEC;
        }
        Profile::Tight => {
            c.script = 6;
            c.tight_pct = 90;
            c.delay_ppm = *r.pick(&[1_500u32, 5_000, 15_000]);
            c.drift_ppb = *r.pick(&[50_000u32, 100_000, 500_000]);
            c.clock_fail_ppm = 0;
        }
        Profile::Outage => {
            c.script = 2;
            if r.chance(50) {
                // exact timing: time only advances in sleeps and reply latencies
                c.step_cost_ns = 0;
                c.delay_ppm = 0;
            }
            c.phc = *r.pick(&[0u8, 1, 3, 3, 4]);
            c.horizon_ns = r.range(30, 120) * SEC;
        }
        Profile::Coldstart => {
            c.script = 3;
            c.start_mono_ns = r.range(300_000_000, 900 * SEC);
            c.phc = *r.pick(&[0u8, 0, 3]);
            let n = r.range(1, 3) as usize;
            c.daemon.clear();
            for _ in 0..n {
                let kill = if r.chance(50) { Some(r.below(60 * 20) as u32) } else { None };
                c.daemon.push(DInc { kill_at: kill, panic_at: None, io_err: None, restart_delay_ns: r.range(0, 8) * SEC, damage_before: false, delete_before: false });
            }
        }
        Profile::Workerdeath => {
            c.script = *r.pick(&[0u8, 1, 2]);
            c.phc = *r.pick(&[0u8, 1, 3, 4]);
            let n = r.range(1, 3) as usize;
            c.daemon.clear();
            for _ in 0..n {
                let mut d = DInc { kill_at: None, panic_at: None, io_err: None, restart_delay_ns: r.range(0, 10) * SEC, damage_before: false, delete_before: false };
                match r.below(10) {
                    // start-up failures: fault points 0..3 are writer:start, poller:start, writer:ready, first loops
                    0 | 1 => d.panic_at = Some(r.below(4) as u32),
                    2 => d.io_err = Some((r.below(10) as u32, *r.pick(&[libc::ENOSPC as u32, libc::EIO as u32, libc::EACCES as u32]))),
                    // ~3 fault points per poll-second (poller:loop, poller:send, writer:loop)
                    _ => d.panic_at = Some(r.below(3 * 30) as u32),
                }
                c.daemon.push(d);
            }
            if r.chance(20) {
                c.init_file = Corrupt::Dir;
            }
            c.horizon_ns = r.range(30, 90) * SEC;
        }
        Profile::Synthetic => {
            c.daemon.clear();
            c.clients.clear();
            c.synthetic_cases = r.range(20, 60) as u32;
            c.step_cost_ns = 0;
            // in some runs the clocks advance on every read (so that two reads of one call differ)
            c.clock_read_cost_ns = *r.pick(&[0i64, 0, 0, 1, 300, 700, 2_500]);
            c.delay_ppm = 0;
            c.clock_lag_ppm = 0;
            // (clock failures only where the three libraries are not compared call by call)
            c.clock_fail_ppm = if c.clock_read_cost_ns > 0 && r.chance(50) { 20_000 } else { 0 };
            c.weak = false;
            c.stale_ppm = 0;
            c.phc = 0;
            // ± 68 years around the epoch for both clocks
            c.start_mono_ns = match r.below(3) {
                0 => r.range(1, 100 * SEC),
                1 => r.range(100 * SEC, 1_000_000 * SEC),
                _ => r.range(1_000_000 * SEC, 2_100_000_000 * SEC),
            };
            c.t0_ns = r.range(-2_100_000_000 * SEC, 2_100_000_000 * SEC) - c.start_mono_ns.min(2_000_000_000 * SEC);
            c.t0_ns = c.t0_ns.clamp(-2_140_000_000 * SEC, 2_140_000_000 * SEC);
            c.horizon_ns = 4_000 * SEC;
        }
        Profile::Formula => {
            c.script = 5;
            c.tight_pct = 0;
            c.weak = false;
            c.stale_ppm = 0;
            c.delay_ppm = 0;
            c.clock_fail_ppm = 0;
            c.phc = *r.pick(&[0u8, 1, 1, 2]);
            c.clients.truncate(1);
            c.horizon_ns = r.range(20, 40) * SEC;
        }
        Profile::Leap => {
            c.script = 4;
            c.weak = false;
            c.stale_ppm = 0;
            c.clock_fail_ppm = 0;
            c.phc = 0;
            c.leap_base = ((index * 8) % 65536) as u32;
            c.clients.truncate(1);
            c.horizon_ns = r.range(40, 70) * SEC;
            c.delay_ppm = *r.pick(&[0u32, 0, 1_500]);
        }
        Profile::Epoch => {
            c.script = 7;
            c.weak = false;
            c.stale_ppm = 0;
            c.delay_ppm = 0;
            c.clock_fail_ppm = 0;
            c.clock_lag_ppm = 0;
            c.phc = 0;
            c.step_cost_ns = 100;
            c.clients.truncate(1);
            c.clients[0].kind = 2;
            c.clients[0].calls = 6;
            c.clients[0].threshold_pct = 0;
            // outage lengths in seconds, just past each wrap-around point
            let len_s = [4_296i64, 65_540, 2_147_485, 4_294_969][(index % 4) as usize];
            c.horizon_ns = (len_s + 40) * SEC;
            c.leap_base = len_s as u32;
            c.max_steps = 60_000_000;
        }
        Profile::Abi => {
            c.script = *r.pick(&[0u8, 1, 2]);
            c.pairs = r.range(5, 25) as u32;
            c.weak = false;
            c.stale_ppm = 0;
            c.init_file = match r.below(5) {
                0 => Corrupt::Truncate { len: r.range(0, 40) as u32 },
                1 => Corrupt::SetField { field: r.below(5) as u8, value: *r.pick(&[0u32, 15, 71, 3]) },
                2 => Corrupt::Dir,
                _ => Corrupt::None,
            };
            if r.chance(50) {
                // a daemon killed at an arbitrary point (inside an update, one time in five) and
                // restarted some seconds later
                c.daemon = vec![
                    DInc { kill_at: Some(r.below(60 * 20) as u32), panic_at: None, io_err: None, restart_delay_ns: 0, damage_before: false, delete_before: false },
                    DInc { kill_at: None, panic_at: None, io_err: None, restart_delay_ns: r.range(0, 12) * SEC, damage_before: false, delete_before: r.chance(40) },
                ];
            }
            if matches!(c.init_file, Corrupt::Dir) {
                // the daemon cannot start over a directory: pairs then compare error outcomes only
                c.horizon_ns = 15 * SEC;
            }
        }
    }
    c
}

pub fn shrink(c: &BCfg) -> Vec<BCfg> {
    let mut out = Vec::new();
    if c.clients.len() > 1 {
        for i in 0..c.clients.len() {
            let mut d = c.clone();
            d.clients.remove(i);
            out.push(d);
        }
    }
    if c.daemon.len() > 1 {
        let mut d = c.clone();
        d.daemon.pop();
        out.push(d);
    }
    if c.horizon_ns > 15 * SEC {
        let mut d = c.clone();
        d.horizon_ns = (c.horizon_ns / 2).max(10 * SEC);
        out.push(d);
    }
    for i in 0..c.clients.len() {
        if c.clients[i].calls > 2 {
            let mut d = c.clone();
            d.clients[i].calls /= 2;
            out.push(d);
        }
    }
    if c.synthetic_cases > 2 {
        let mut d = c.clone();
        d.synthetic_cases /= 2;
        out.push(d);
    }
    if c.pairs > 2 {
        let mut d = c.clone();
        d.pairs /= 2;
        out.push(d);
    }
    if c.delay_ppm > 0 {
        let mut d = c.clone();
        d.delay_ppm = 0;
        out.push(d);
    }
    if c.clock_lag_ppm > 0 || c.clock_fail_ppm > 0 {
        let mut d = c.clone();
        d.clock_lag_ppm = 0;
        d.clock_fail_ppm = 0;
        out.push(d);
    }
    out
}
