//! Reference models (DESIGN.md §6.5): exact-arithmetic oracles for the client law, the bound
//! formula and the updater state machine. Transcribed from README.md, clock-bound-d/README.md,
//! FSM.png and the property texts — not from the code under test.

use crate::util::PRecord;

pub const NS: i128 = 1_000_000_000;

#[derive(Clone, Copy, Debug, PartialEq, Eq)]
pub enum Status {
    Unknown = 0,
    Synchronized = 1,
    FreeRunning = 2,
}

impl Status {
    pub fn from_i32(i: i32) -> Option<Status> {
        match i {
            0 => Some(Status::Unknown),
            1 => Some(Status::Synchronized),
            2 => Some(Status::FreeRunning),
            _ => None,
        }
    }
}

#[derive(Clone, Copy, Debug, PartialEq, Eq)]
pub enum ErrKind {
    Syscall = 1,
    NotInitialized = 2,
    Malformed = 3,
    Causality = 4,
}

pub fn ts_ns(s: i64, ns: i64) -> i128 {
    s as i128 * NS + ns as i128
}

/// Status decay (C06): what a client may report for a stored status and a monotonic reading.
pub fn decay(stored: Status, mono: i128, as_of: i128, void_after: i128) -> Status {
    match stored {
        Status::Unknown => Status::Unknown,
        s => {
            if mono < as_of + 5 * NS {
                s
            } else if mono < void_after {
                Status::FreeRunning
            } else {
                Status::Unknown
            }
        }
    }
}

/// Exact half-width of the interval (C05): stored bound plus drift times age, truncated to ns.
pub fn half_width(bound: i64, drift_ppb: u32, age_ns: i128) -> i128 {
    bound as i128 + (age_ns * drift_ppb as i128).div_euclid(NS)
}

// ---------------------------------------------------------------------------------------------
// chrony's 32-bit float: exact value as a dyadic rational
// ---------------------------------------------------------------------------------------------

/// value = m * 2^e exactly, m odd or zero.
#[derive(Clone, Copy, Debug)]
pub struct Dyadic {
    pub m: i128,
    pub e: i32,
}

pub fn dyadic_of_f64(v: f64) -> Dyadic {
    if v == 0.0 || !v.is_finite() {
        return Dyadic { m: 0, e: 0 };
    }
    let bits = v.to_bits();
    let sign: i128 = if bits >> 63 != 0 { -1 } else { 1 };
    let exp = ((bits >> 52) & 0x7ff) as i32;
    let frac = bits & ((1u64 << 52) - 1);
    let (mut m, mut e) = if exp == 0 { (frac as i128, -1074) } else { ((frac | (1u64 << 52)) as i128, exp - 1075) };
    while m != 0 && m & 1 == 0 {
        m >>= 1;
        e += 1;
    }
    Dyadic { m: sign * m, e }
}

pub const SCALE_BITS: i32 = 64;

/// value in ns times 2^(SCALE_BITS+1), or None when outside the exactly representable window.
fn scaled_ns_x2(d: Dyadic) -> Option<i128> {
    if d.m == 0 {
        return Some(0);
    }
    let sh = SCALE_BITS + 1 + d.e;
    if !(0..=72).contains(&sh) || d.m.abs() >= (1 << 26) {
        return None;
    }
    Some(d.m * NS * (1i128 << sh))
}

#[derive(Clone, Copy, Debug)]
pub struct BoundExpect {
    /// the exact sum rounded up to whole ns
    pub ceil: i128,
    /// true when the exact value is so close to an integer that double-precision evaluation may
    /// legitimately land on either side
    pub ambiguous: bool,
}

/// README formula: |offset| + root dispersion + root delay / 2, in ns, rounded up (C07).
pub fn bound_formula(offset: f64, root_delay: f64, root_dispersion: f64) -> Option<BoundExpect> {
    let o = scaled_ns_x2(dyadic_of_f64(offset))?.abs();
    let d = scaled_ns_x2(dyadic_of_f64(root_delay))?;
    let e = scaled_ns_x2(dyadic_of_f64(root_dispersion))?;
    // scale 2^(S+1): o and e carry an extra factor 2 already (x2), delay/2 is d/2 at that scale
    let unit: i128 = 1i128 << (SCALE_BITS + 1);
    let n = o.checked_add(e)?.checked_add(d / 2)?;
    // d is a multiple of 2 at this scale by construction (shift >= 0 of scale S+1), so d/2 is exact
    let ceil = n.div_euclid(unit) + if n.rem_euclid(unit) != 0 { 1 } else { 0 };
    let r = n.rem_euclid(unit);
    let dist = r.min(unit - r); // distance to the nearest integer, in units of 2^-(S+1) ns
    let sum_ns = (n / unit).abs().max(1);
    // tolerance: 1e-6 ns or the accumulated rounding error of a handful of f64 operations
    let tol_abs = (unit / 1_000_000).max(sum_ns.saturating_mul(unit >> 48));
    Some(BoundExpect { ceil, ambiguous: dist <= tol_abs })
}

// ---------------------------------------------------------------------------------------------
// updater model (C08, C09, C10)
// ---------------------------------------------------------------------------------------------

#[derive(Clone, Copy, Debug, PartialEq, Eq)]
pub enum MsgKind {
    Data,
    ChronyGrace,
    ChronyGone,
    PhcGrace,
    PhcGone,
}

/// Classification of a tracking report (C10). `None` inside the gap between the exact
/// eight-interval threshold and its truncation to whole seconds (either answer is accepted).
pub fn classify_report(leap: u16, ref_time_ns: i128, now_rt_ns: i128, interval_s: f64) -> Option<Status> {
    // "any other leap status, or a reference time in the future, is Unknown": whatever the leap status
    if ref_time_ns > now_rt_ns {
        return Some(Status::Unknown);
    }
    match leap {
        0..=2 => {
            let age = now_rt_ns - ref_time_ns;
            let thr_exact_ns = {
                let d = dyadic_of_f64(interval_s * 8.0);
                // 8*interval is exact in f64 (power-of-two scaling)
                if d.m == 0 {
                    0
                } else if d.e >= 0 {
                    d.m * (1i128 << d.e.min(60)) * NS
                } else if -d.e <= 90 {
                    (d.m * NS) >> (-d.e).min(120)
                } else {
                    0
                }
            };
            let thr_floor_ns = ((interval_s * 8.0).max(0.0).floor() as i128) * NS;
            if age > thr_exact_ns.max(thr_floor_ns) {
                Some(Status::FreeRunning)
            } else if age <= thr_floor_ns.min(thr_exact_ns) {
                Some(Status::Synchronized)
            } else {
                None
            }
        }
        3 => Some(Status::FreeRunning),
        _ => Some(Status::Unknown),
    }
}

/// Daemon-side memory between polls, per the documentation.
#[derive(Clone, Debug)]
pub struct UpdaterModel {
    pub bound: i64,
    pub as_of: (i64, i64),
    pub seen_sync: bool,
    pub drift: u32,
}

impl UpdaterModel {
    pub fn new(drift: u32) -> UpdaterModel {
        UpdaterModel { bound: 0, as_of: (0, 0), seen_sync: false, drift }
    }

    /// Apply one poll outcome; returns the record that must be published.
    /// `sync_sample`: Some((bound, as_of)) when the outcome is a synchronised report.
    pub fn apply(&mut self, latest: Status, sync_sample: Option<(i64, (i64, i64))>) -> PRecord {
        if let Some((b, a)) = sync_sample {
            self.bound = b;
            self.as_of = a;
            self.seen_sync = true;
        }
        let status = if self.seen_sync { latest } else { Status::Unknown };
        PRecord {
            as_of_s: self.as_of.0,
            as_of_ns: self.as_of.1,
            void_s: self.as_of.0 + 1000,
            void_ns: 0,
            bound: self.bound,
            drift: self.drift,
            reserved: 0,
            status: status as i32,
        }
    }
}
