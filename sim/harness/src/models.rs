//! Reference models (DESIGN.md §6.5). Filled in with world B.
