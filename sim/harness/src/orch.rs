//! Orchestrator: fan-out over worker processes, aggregation, known findings, minimisation,
//! replay files, evidence files.

use crate::util::*;
use crate::{exec, gen_cfg, run_seed_of, AnyCfg};
use serde_json::{json, Map, Value};
use std::collections::{BTreeMap, BTreeSet};
use std::io::{BufRead, BufReader, Write};
use std::path::{Path, PathBuf};
use std::process::{Command, Stdio};
use std::time::Instant;

pub struct Batch {
    pub world: &'static str,
    pub profile: &'static str,
    pub quick: u64,
    pub thorough: u64,
}

const fn b(world: &'static str, profile: &'static str, quick: u64, thorough: u64) -> Batch {
    Batch { world, profile, quick, thorough }
}

/// Which runs decide which property (DESIGN.md §7). Run counts are fixed per tier so that a
/// seed gives the same verdict on any machine.
pub fn plan(prop: &str) -> Vec<Batch> {
    match prop {
        "C02" => vec![b("A", "deadwriter", 16, 320), b("A", "weak", 60_000, 1_500_000), b("A", "sc", 16_000, 300_000), b("A", "weakkill", 20_000, 500_000), b("A", "busy", 20_000, 400_000)],
        "C03" => vec![b("A", "sc", 40_000, 800_000), b("A", "weak", 30_000, 600_000), b("A", "sckill", 16_000, 400_000), b("A", "sleeper", 56, 448), b("A", "busy", 10_000, 200_000)],
        "C04" => vec![b("A", "sckill", 30_000, 600_000), b("A", "weakkill", 20_000, 500_000), b("A", "corrupt", 8_000, 200_000), b("B", "restart", 8_000, 200_000)],
        "C11" => vec![b("A", "marathon", 6, 48), b("A", "sweep", 6_144, 6_144), b("A", "sckill", 20_000, 400_000), b("A", "sc", 10_000, 200_000), b("A", "corrupt", 8_000, 200_000)],
        "C16" => vec![b("A", "corrupt", 60_000, 1_500_000), b("A", "sckill", 6_000, 100_000), b("B", "abi", 4_000, 80_000)],
        "C18" => vec![b("A", "marathon", 6, 48), b("A", "deadwriter", 48, 640), b("A", "flood", 4, 64), b("A", "busy", 20_000, 400_000), b("A", "sckill", 20_000, 400_000), b("A", "weakkill", 10_000, 300_000), b("B", "abi", 4_000, 100_000)],
        "C17" => vec![b("A", "sc", 8_000, 100_000), b("A", "corrupt", 8_000, 100_000), b("B", "abi", 16_000, 400_000), b("B", "synthetic", 16_000, 400_000)],
        "C01" => vec![b("A", "deadwriter", 16, 160), b("A", "sckill", 6_000, 100_000), b("B", "pipeline", 24_000, 600_000), b("B", "restart", 12_000, 300_000), b("B", "tight", 16_000, 400_000), b("B", "coldstart", 8_000, 200_000), b("B", "outage", 8_000, 200_000)],
        "C05" => vec![b("A", "deadwriter", 16, 160), b("B", "synthetic", 30_000, 800_000), b("B", "pipeline", 12_000, 300_000), b("B", "tight", 6_000, 100_000)],
        "C06" => vec![b("A", "deadwriter", 16, 160), b("B", "synthetic", 30_000, 800_000), b("B", "outage", 12_000, 300_000), b("B", "pipeline", 6_000, 100_000), b("B", "restart", 12_000, 300_000)],
        "C07" => vec![b("B", "formula", 30_000, 800_000), b("B", "pipeline", 12_000, 300_000), b("B", "tight", 6_000, 100_000)],
        "C08" => vec![b("B", "pipeline", 16_000, 400_000), b("B", "outage", 16_000, 400_000), b("B", "restart", 8_000, 200_000), b("B", "leap", 8_000, 200_000)],
        "C09" => vec![b("B", "coldstart", 24_000, 600_000), b("B", "restart", 12_000, 300_000), b("B", "outage", 8_000, 200_000)],
        "C10" => vec![b("B", "leap", 30_000, 800_000), b("B", "pipeline", 8_000, 200_000)],
        "C12" => vec![b("B", "tight", 24_000, 600_000), b("B", "pipeline", 12_000, 300_000), b("B", "synthetic", 8_000, 200_000)],
        "C13" => vec![b("B", "epoch", 4, 32), b("B", "outage", 30_000, 800_000), b("B", "coldstart", 12_000, 300_000), b("B", "pipeline", 6_000, 100_000)],
        "C14" => vec![b("B", "synthetic", 40_000, 1_000_000), b("B", "pipeline", 8_000, 200_000)],
        "C15" => vec![b("B", "workerdeath", 30_000, 800_000), b("B", "restart", 6_000, 150_000), b("B", "outage", 6_000, 150_000)],
        _ => vec![],
    }
}

pub fn verif_root() -> PathBuf {
    std::env::var_os("VERIF_ROOT").map(PathBuf::from).unwrap_or_else(|| PathBuf::from("/verif"))
}

fn replay_dir() -> PathBuf {
    std::env::var_os("VERIF_REPLAY_DIR").map(PathBuf::from).unwrap_or_else(|| verif_root().join("replays"))
}

fn base_seed() -> u64 {
    std::env::var("VERIF_SEED").ok().and_then(|s| s.parse::<i64>().ok()).map(|v| v as u64).unwrap_or(1)
}

// ------------------------------------------------------------------------------------------
// worker
// ------------------------------------------------------------------------------------------

#[derive(Default)]
struct Agg {
    runs: u64,
    steps: u64,
    switches: u64,
    virt_ns: i128,
    counters: BTreeMap<String, u64>,
    nontrivial: BTreeMap<String, u64>,
    fps: BTreeSet<u64>,
    all_fps: BTreeSet<u64>,
    states: BTreeSet<u64>,
    sets: BTreeMap<String, BTreeSet<u64>>,
    violations: Vec<Value>,
    viol_count: BTreeMap<String, u64>,
    harness_errors: Vec<String>,
    samples: Vec<Value>,
    hashes: Vec<(u64, u64)>,
}

impl Agg {
    fn to_json(&self) -> Value {
        json!({
            "runs": self.runs, "steps": self.steps, "switches": self.switches, "virt_ns": self.virt_ns.to_string(),
            "counters": self.counters, "nontrivial": self.nontrivial,
            "fps": self.fps.iter().map(|x| format!("{x:x}")).collect::<Vec<_>>(),
            "all_fps": self.all_fps.iter().map(|x| format!("{x:x}")).collect::<Vec<_>>(),
            "states": self.states.iter().map(|x| format!("{x:x}")).collect::<Vec<_>>(),
            "sets": self.sets.iter().map(|(k, v)| (k.clone(), v.iter().map(|x| format!("{x:x}")).collect::<Vec<_>>())).collect::<BTreeMap<_, _>>(),
            "violations": self.violations, "viol_count": self.viol_count, "harness_errors": self.harness_errors, "samples": self.samples,
            "hashes": self.hashes.iter().map(|(i, h)| json!([i, format!("{h:x}")])).collect::<Vec<_>>(),
        })
    }

    fn merge_json(&mut self, v: &Value) {
        let u = |x: &Value| x.as_u64().unwrap_or(0);
        self.runs += u(&v["runs"]);
        self.steps += u(&v["steps"]);
        self.switches += u(&v["switches"]);
        self.virt_ns += v["virt_ns"].as_str().and_then(|s| s.parse::<i128>().ok()).unwrap_or(0);
        for (name, field) in [("counters", 0), ("nontrivial", 1), ("viol_count", 2)] {
            if let Some(m) = v[name].as_object() {
                for (k, x) in m {
                    let t = match field {
                        0 => &mut self.counters,
                        1 => &mut self.nontrivial,
                        _ => &mut self.viol_count,
                    };
                    let e = t.entry(k.clone()).or_insert(0);
                    if k.starts_with("measure.max") {
                        *e = (*e).max(u(x));
                    } else {
                        *e += u(x);
                    }
                }
            }
        }
        let hex = |x: &Value| u64::from_str_radix(x.as_str().unwrap_or("0"), 16).unwrap_or(0);
        for (name, set) in [("fps", &mut self.fps), ("all_fps", &mut self.all_fps), ("states", &mut self.states)] {
            if let Some(a) = v[name].as_array() {
                for x in a {
                    set.insert(hex(x));
                }
            }
        }
        if let Some(m) = v["sets"].as_object() {
            for (k, a) in m {
                let e = self.sets.entry(k.clone()).or_default();
                if let Some(a) = a.as_array() {
                    for x in a {
                        e.insert(hex(x));
                    }
                }
            }
        }
        if let Some(a) = v["violations"].as_array() {
            self.violations.extend(a.iter().cloned());
        }
        if let Some(a) = v["harness_errors"].as_array() {
            self.harness_errors.extend(a.iter().filter_map(|x| x.as_str().map(String::from)));
        }
        if let Some(a) = v["samples"].as_array() {
            for x in a {
                if self.samples.len() < 4 {
                    self.samples.push(x.clone());
                }
            }
        }
        if let Some(a) = v["hashes"].as_array() {
            for x in a {
                self.hashes.push((u(&x[0]), hex(&x[1])));
            }
        }
    }
}

fn absorb(agg: &mut Agg, prop: &str, index: u64, run_seed: u64, out: Outcome, rep: &verif_rt::RunReport, keep_hashes: bool) {
    agg.runs += 1;
    agg.steps += rep.steps;
    agg.switches += rep.switches;
    agg.virt_ns += rep.virt_ns as i128;
    for (k, v) in &rep.counters {
        *agg.counters.entry(k.to_string()).or_insert(0) += v;
    }
    for (k, v) in &out.probes {
        let e = agg.counters.entry(k.clone()).or_insert(0);
        if k.starts_with("measure.max") {
            *e = (*e).max(*v);
        } else {
            *e += v;
        }
    }
    for p in &out.nontrivial {
        *agg.nontrivial.entry(p.to_string()).or_insert(0) += 1;
    }
    agg.all_fps.insert(rep.sched_fp);
    let nt = out.nontrivial.contains(prop);
    if nt {
        agg.fps.insert(rep.sched_fp);
    }
    agg.states.extend(out.states.iter().copied());
    for (k, v) in &out.sets {
        agg.sets.entry(k.to_string()).or_default().extend(v.iter().copied());
    }
    for v in &out.violations {
        let key = format!("{}|{}|{}", v.props.join("+"), v.oracle, v.sig);
        let c = agg.viol_count.entry(key).or_insert(0);
        *c += 1;
        if *c <= 3 {
            let mut j = v.to_json();
            j["index"] = json!(index);
            j["seed"] = json!(run_seed);
            agg.violations.push(j);
        }
    }
    for e in out.harness_errors {
        if agg.harness_errors.len() < 20 {
            agg.harness_errors.push(format!("run {index} seed {run_seed}: {e}"));
        }
    }
    if let Some(s) = out.sample {
        if agg.samples.len() < 2 && nt {
            agg.samples.push(json!({"index": index, "seed": run_seed, "run": s}));
        }
    }
    if keep_hashes {
        agg.hashes.push((index, rep.hash));
    }
}

/// `cbsim worker <world> <profile> <base_seed> <from> <to> <prop> [hashes]`
pub fn worker(a: &[String]) -> i32 {
    let (world, profile) = (a[0].as_str(), a[1].as_str());
    let base: u64 = a[2].parse().unwrap();
    let (from, to): (u64, u64) = (a[3].parse().unwrap(), a[4].parse().unwrap());
    let prop = a[5].as_str();
    let keep_hashes = a.get(6).map(|s| s == "hashes").unwrap_or(false);
    pin_to_cpu();
    let sb = Sandbox::new();
    let base_fds = open_fds();
    let mut agg = Agg::default();
    let out = std::io::stdout();
    for i in from..to {
        {
            let mut o = out.lock();
            let _ = writeln!(o, "@{i}");
            let _ = o.flush();
        }
        let seed = run_seed_of(base, world, profile, i);
        let cfg = gen_cfg(world, profile, seed, i);
        let dir = sb.fresh();
        let (outcome, rep) = exec(&cfg, seed, None, false, &dir);
        if rep.hung {
            // the stuck OS threads cannot be recovered: report and leave
            let mut o = out.lock();
            let _ = writeln!(o, "HUNG {i} {seed}");
            let _ = o.flush();
            absorb(&mut agg, prop, i, seed, outcome, &rep, keep_hashes);
            let _ = writeln!(o, "SUMMARY {}", agg.to_json());
            let _ = o.flush();
            drop(sb);
            unsafe { libc::_exit(3) };
        }
        absorb(&mut agg, prop, i, seed, outcome, &rep, keep_hashes);
        close_leaked_fds(&base_fds);
    }
    let mut o = out.lock();
    let _ = writeln!(o, "SUMMARY {}", agg.to_json());
    0
}

/// All simulated threads of one worker process run one at a time: keeping them on one CPU makes a
/// hand-over a plain context switch instead of a cross-CPU wake-up.
pub fn pin_to_cpu() {
    let Some(cpu) = std::env::var("VERIF_CPU").ok().and_then(|s| s.parse::<usize>().ok()) else { return };
    unsafe {
        let mut set: libc::cpu_set_t = std::mem::zeroed();
        libc::CPU_ZERO(&mut set);
        libc::CPU_SET(cpu % libc::CPU_SETSIZE as usize, &mut set);
        libc::sched_setaffinity(0, std::mem::size_of::<libc::cpu_set_t>(), &set);
    }
}

struct WorkerResult {
    summary: Option<Value>,
    last_index: Option<u64>,
    status: i32,
    hung: Option<(u64, u64)>,
}

fn run_workers(world: &str, profile: &str, base: u64, n: u64, prop: &str, hashes: bool, nworkers: usize) -> Vec<WorkerResult> {
    let exe = std::env::current_exe().expect("current_exe");
    let nchunks = if n < nworkers as u64 * 4 { n.min(nworkers as u64).max(1) } else { nworkers as u64 * 4 };
    let mut chunks: Vec<(u64, u64)> = Vec::new();
    for c in 0..nchunks {
        let from = n * c / nchunks;
        let to = n * (c + 1) / nchunks;
        if to > from {
            chunks.push((from, to));
        }
    }
    let mut results = Vec::new();
    let mut running: Vec<(usize, std::thread::JoinHandle<WorkerResult>)> = Vec::new();
    let mut next = 0;
    let ncpu = std::thread::available_parallelism().map(|n| n.get()).unwrap_or(1);
    let mut free_slots: Vec<usize> = (0..nworkers).rev().collect();
    while next < chunks.len() || !running.is_empty() {
        while running.len() < nworkers && next < chunks.len() {
            let (from, to) = chunks[next];
            next += 1;
            let slot = free_slots.pop().unwrap_or(0);
            let mut cmd = Command::new(&exe);
            cmd.arg("worker").arg(world).arg(profile).arg(base.to_string()).arg(from.to_string()).arg(to.to_string()).arg(prop);
            if hashes {
                cmd.arg("hashes");
            }
            cmd.env("VERIF_CPU", (slot % ncpu).to_string());
            cmd.stdout(Stdio::piped()).stderr(Stdio::inherit()).stdin(Stdio::null());
            let mut child = cmd.spawn().expect("spawn worker");
            running.push((slot, std::thread::spawn(move || {
                let so = child.stdout.take().unwrap();
                let mut last = None;
                let mut summary = None;
                let mut hung = None;
                for line in BufReader::new(so).lines().map_while(Result::ok) {
                    if let Some(r) = line.strip_prefix('@') {
                        last = r.parse().ok();
                    } else if let Some(r) = line.strip_prefix("SUMMARY ") {
                        summary = serde_json::from_str(r).ok();
                    } else if let Some(r) = line.strip_prefix("HUNG ") {
                        let mut it = r.split(' ');
                        hung = Some((it.next().and_then(|x| x.parse().ok()).unwrap_or(0), it.next().and_then(|x| x.parse().ok()).unwrap_or(0)));
                    }
                }
                let st = child.wait().map(|s| s.code().unwrap_or(-1)).unwrap_or(-1);
                WorkerResult { summary, last_index: last, status: st, hung }
            })));
        }
        // wait for any to finish
        let mut i = 0;
        let mut progressed = false;
        while i < running.len() {
            if running[i].1.is_finished() {
                let (slot, h) = running.swap_remove(i);
                free_slots.push(slot);
                results.push(h.join().expect("worker reader thread"));
                progressed = true;
            } else {
                i += 1;
            }
        }
        if !progressed {
            std::thread::sleep(std::time::Duration::from_millis(5));
        }
    }
    results
}

// ------------------------------------------------------------------------------------------
// known findings
// ------------------------------------------------------------------------------------------

struct Known {
    property: String,
    sig: String,
    what: String,
}

fn load_known() -> Vec<Known> {
    let p = verif_root().join("known_findings.json");
    let Ok(s) = std::fs::read_to_string(p) else { return vec![] };
    let Ok(v) = serde_json::from_str::<Value>(&s) else { return vec![] };
    v["known"]
        .as_array()
        .map(|a| {
            a.iter()
                .map(|k| Known { property: k["property"].as_str().unwrap_or("").into(), sig: k["sig"].as_str().unwrap_or("").into(), what: k["what"].as_str().unwrap_or("").into() })
                .collect()
        })
        .unwrap_or_default()
}

// ------------------------------------------------------------------------------------------
// minimisation and replay files
// ------------------------------------------------------------------------------------------

fn reproduces(cfg: &AnyCfg, seed: u64, decisions: &[u32], prop: &str, oracle: &str, sig: &str, sb: &Sandbox, base_fds: &BTreeSet<i32>) -> Option<verif_rt::RunReport> {
    let dir = sb.fresh();
    let (out, rep) = exec(cfg, seed, Some(decisions.to_vec()), false, &dir);
    close_leaked_fds(base_fds);
    if rep.hung {
        return None;
    }
    if out.violations.iter().any(|v| v.props.contains(&prop_static(prop)) && v.oracle == oracle && v.sig == sig) {
        Some(rep)
    } else {
        None
    }
}

fn prop_static(p: &str) -> &'static str {
    const ALL: [&str; 19] = ["C01", "C02", "C03", "C04", "C05", "C06", "C07", "C08", "C09", "C10", "C11", "C12", "C13", "C14", "C15", "C16", "C17", "C18", "C19"];
    ALL.iter().find(|x| **x == p).copied().unwrap_or("C??")
}

fn shrink_cfgs(cfg: &AnyCfg) -> Vec<AnyCfg> {
    match cfg {
        AnyCfg::A(c) => crate::world_a::shrink(c).into_iter().map(AnyCfg::A).collect(),
        AnyCfg::B(c) => crate::world_b::shrink(c).into_iter().map(AnyCfg::B).collect(),
    }
}

/// Hypothesis-style minimisation of the decision list, then of the configuration.
fn minimise(mut cfg: AnyCfg, seed: u64, mut dec: Vec<u32>, prop: &str, oracle: &str, sig: &str, sb: &Sandbox, base_fds: &BTreeSet<i32>) -> (AnyCfg, Vec<u32>, u32) {
    let t0 = Instant::now();
    let mut tries = 0u32;
    let budget_s = 40.0;
    let max_tries = 600;
    let spent = |tries: u32| tries >= max_tries || t0.elapsed().as_secs_f64() > budget_s;
    let mut ok = |c: &AnyCfg, d: &[u32], tries: &mut u32| -> bool {
        if *tries >= max_tries || t0.elapsed().as_secs_f64() > budget_s {
            return false;
        }
        *tries += 1;
        reproduces(c, seed, d, prop, oracle, sig, sb, base_fds).is_some()
    };
    // 0. drop trailing zeros (free: exhausted lists read as zeros)
    while dec.last() == Some(&0) {
        dec.pop();
    }
    // 1. truncate (binary search on prefix length)
    let (mut lo, mut hi) = (0usize, dec.len());
    while lo < hi {
        let mid = (lo + hi) / 2;
        if ok(&cfg, &dec[..mid], &mut tries) {
            hi = mid;
        } else {
            lo = mid + 1;
        }
    }
    if hi < dec.len() && ok(&cfg, &dec[..hi], &mut tries) {
        dec.truncate(hi);
    }
    // 2. zero chunks
    let mut size = (dec.len() / 2).max(1);
    while size >= 1 && !spent(tries) {
        let mut i = 0;
        while i < dec.len() && !spent(tries) {
            let end = (i + size).min(dec.len());
            if dec[i..end].iter().any(|&x| x != 0) {
                let mut cand = dec.clone();
                for x in &mut cand[i..end] {
                    *x = 0;
                }
                if ok(&cfg, &cand, &mut tries) {
                    dec = cand;
                }
            }
            i = end;
        }
        if size == 1 {
            break;
        }
        size /= 2;
    }
    // 3. delete chunks
    let mut size = (dec.len() / 4).max(1);
    while size >= 1 && dec.len() > 1 && !spent(tries) {
        let mut i = 0;
        while i + size <= dec.len() && !spent(tries) {
            let mut cand = dec.clone();
            cand.drain(i..i + size);
            if ok(&cfg, &cand, &mut tries) {
                dec = cand;
            } else {
                i += size;
            }
        }
        if size == 1 {
            break;
        }
        size /= 2;
    }
    // 4. lower values
    for i in 0..dec.len() {
        if spent(tries) {
            break;
        }
        if dec[i] > 1 {
            let mut cand = dec.clone();
            cand[i] = 1;
            if ok(&cfg, &cand, &mut tries) {
                dec = cand;
            }
        }
    }
    while dec.last() == Some(&0) {
        dec.pop();
    }
    // 5. configuration
    let mut progress = true;
    while progress && !spent(tries) {
        progress = false;
        for cand in shrink_cfgs(&cfg) {
            if ok(&cand, &dec, &mut tries) {
                cfg = cand;
                progress = true;
                break;
            }
        }
    }
    (cfg, dec, tries)
}

fn render_trace(rep: &verif_rt::RunReport, max: usize) -> Vec<String> {
    let n = rep.trace.len();
    let start = n.saturating_sub(max);
    rep.trace[start..]
        .iter()
        .map(|e| {
            let name = rep.thread_names.get(e.tid as usize).map(|s| s.as_str()).unwrap_or("?");
            format!("#{} t={}ns {} {:?} {} a={:#x} b={:#x} c={:#x}", e.step, e.at, name, e.kind, e.tag, e.a, e.b, e.c)
        })
        .collect()
}

#[allow(clippy::too_many_arguments)]
fn write_replay(prop: &str, world: &str, profile: &str, index: u64, seed: u64, cfg: &AnyCfg, dec: &[u32], oracle: &str, sig: &str, detail: &str, sb: &Sandbox, base_fds: &BTreeSet<i32>, note: &str) -> Option<PathBuf> {
    // final traced run
    let dir = sb.fresh();
    let (out, rep) = exec(cfg, seed, Some(dec.to_vec()), true, &dir);
    close_leaked_fds(base_fds);
    let v = out.violations.iter().find(|v| v.props.contains(&prop_static(prop)) && v.oracle == oracle && v.sig == sig)?;
    let dir = replay_dir();
    let _ = std::fs::create_dir_all(&dir);
    let path = dir.join(format!("{prop}-{seed:016x}-{:08x}.json", str_hash(&format!("{oracle}|{sig}")) as u32));
    let j = json!({
        "property": prop, "world": world, "profile": profile, "index": index, "seed": seed,
        "config": cfg.to_json(), "decisions": rle(dec), "n_decisions": dec.len(),
        "expect": {"oracle": oracle, "sig": sig, "event_hash": format!("{:x}", rep.hash)},
        "violation": v.detail, "original_detail": detail, "note": note,
        "steps": rep.steps, "trace_tail": render_trace(&rep, 160),
    });
    std::fs::write(&path, serde_json::to_string_pretty(&j).unwrap()).ok()?;
    Some(path)
}

/// `cbsim replay <file>`: exit 1 and print the VIOLATION line iff the recorded violation
/// reproduces with the recorded event hash; exit 0 if it does not occur; exit 2 on mismatch.
pub fn replay(file: &str) -> i32 {
    let Ok(s) = std::fs::read_to_string(file) else {
        eprintln!("cannot read {file}");
        return 2;
    };
    let v: Value = match serde_json::from_str(&s) {
        Ok(v) => v,
        Err(e) => {
            eprintln!("bad replay file: {e}");
            return 2;
        }
    };
    let world = v["world"].as_str().unwrap_or("A");
    let cfg = AnyCfg::from_json(world, &v["config"]);
    let seed = v["seed"].as_u64().unwrap_or(0);
    let dec = unrle(v["decisions"].as_str().unwrap_or(""));
    let prop = v["property"].as_str().unwrap_or("");
    let oracle = v["expect"]["oracle"].as_str().unwrap_or("");
    let sig = v["expect"]["sig"].as_str().unwrap_or("");
    let want_hash = v["expect"]["event_hash"].as_str().unwrap_or("");
    if std::env::var_os("VERIF_CPU").is_none() {
        std::env::set_var("VERIF_CPU", "0");
    }
    pin_to_cpu();
    let sb = Sandbox::new();
    let dir = sb.fresh();
    println!("replay: property={prop} world={world} seed={seed} decisions={}", dec.len());
    let (out, rep) = exec(&cfg, seed, Some(dec), true, &dir);
    let hash = format!("{:x}", rep.hash);
    for l in render_trace(&rep, 60) {
        println!("  {l}");
    }
    match out.violations.iter().find(|x| x.props.contains(&prop_static(prop)) && x.oracle == oracle && x.sig == sig) {
        Some(x) => {
            println!("reproduced: {} [{}] {}", x.oracle, x.sig, x.detail);
            if hash != want_hash {
                println!("event hash differs: got {hash}, recorded {want_hash}");
                return 2;
            }
            println!("event hash {hash} matches");
            println!("VIOLATION property={prop} replay={file}");
            1
        }
        None => {
            println!("the recorded violation did not occur (event hash {hash}, recorded {want_hash}); other violations: {:?}", out.violations.iter().map(|x| format!("{}:{}", x.oracle, x.sig)).collect::<Vec<_>>());
            0
        }
    }
}

// ------------------------------------------------------------------------------------------
// check
// ------------------------------------------------------------------------------------------

pub fn check(prop: &str, tier: &str) -> i32 {
    let t0 = Instant::now();
    let seed = base_seed();
    println!("VERIF_SEED={seed} property={prop} tier={tier}");
    sweep_stale_sandboxes();
    let batches = plan(prop);
    if batches.is_empty() {
        eprintln!("no check for property {prop}");
        return 2;
    }
    let nworkers = std::env::var("VERIF_WORKERS").ok().and_then(|s| s.parse().ok()).unwrap_or_else(|| std::thread::available_parallelism().map(|n| n.get()).unwrap_or(8));
    let mut total = Agg::default();
    let mut per_batch = Vec::new();
    let mut harness_fail = Vec::new();
    let mut crashes: Vec<Value> = Vec::new();
    for bt in &batches {
        let n = if tier == "thorough" { bt.thorough } else { bt.quick };
        if n == 0 {
            continue;
        }
        let tb = Instant::now();
        let res = run_workers(bt.world, bt.profile, seed, n, prop, false, nworkers);
        let mut agg = Agg::default();
        for r in &res {
            if let Some(s) = &r.summary {
                agg.merge_json(s);
            }
            if let Some((i, sd)) = r.hung {
                crashes.push(json!({"world": bt.world, "profile": bt.profile, "index": i, "seed": sd, "what": "run stopped yielding (watchdog)"}));
            } else if r.status != 0 || r.summary.is_none() {
                let i = r.last_index.unwrap_or(0);
                let sd = run_seed_of(seed, bt.world, bt.profile, i);
                crashes.push(json!({"world": bt.world, "profile": bt.profile, "index": i, "seed": sd, "what": format!("worker process died (status {}) during this run", r.status)}));
            }
        }
        println!(
            "  batch world={} profile={} runs={} steps={} violations(any property)={} wall={:.1}s",
            bt.world,
            bt.profile,
            agg.runs,
            agg.steps,
            agg.viol_count.values().sum::<u64>(),
            tb.elapsed().as_secs_f64()
        );
        per_batch.push(json!({"world": bt.world, "profile": bt.profile, "runs": agg.runs, "steps": agg.steps, "virtual_seconds": (agg.virt_ns / 1_000_000_000) as u64, "wall_s": tb.elapsed().as_secs_f64()}));
        // tag violations with their batch for replay
        for v in agg.violations.iter_mut() {
            v["world"] = json!(bt.world);
            v["profile"] = json!(bt.profile);
        }
        let a = agg.to_json();
        total.merge_json(&a);
        // a violation of this property that is not a listed finding decides the check: skip the
        // remaining batches (they would only add time; the evidence file then covers what ran)
        let known_now = load_known();
        let decided = agg.violations.iter().any(|v| {
            v["props"].as_array().map(|a| a.iter().any(|p| p == prop)).unwrap_or(false)
                && !known_now.iter().any(|k| k.property == prop && k.sig == format!("{}: {}", v["oracle"].as_str().unwrap_or(""), v["sig"].as_str().unwrap_or("")))
        });
        if decided {
            println!("  violation found: skipping the remaining batches");
            break;
        }
    }
    harness_fail.extend(total.harness_errors.iter().cloned());

    // ---- violations of this property ----
    let known = load_known();
    let mine: Vec<&Value> = total.violations.iter().filter(|v| v["props"].as_array().map(|a| a.iter().any(|p| p == prop)).unwrap_or(false)).collect();
    let mut by_sig: BTreeMap<(String, String), Vec<&Value>> = BTreeMap::new();
    for v in mine {
        by_sig.entry((v["oracle"].as_str().unwrap_or("").to_string(), v["sig"].as_str().unwrap_or("").to_string())).or_default().push(v);
    }
    // in-process re-executions (minimisation, replay files): same single-CPU discipline as workers
    if std::env::var_os("VERIF_CPU").is_none() {
        std::env::set_var("VERIF_CPU", "0");
    }
    pin_to_cpu();
    let sb = Sandbox::new();
    let base_fds = open_fds();
    let mut new_violations = 0;
    let mut known_hits = 0;
    let mut lines = Vec::new();
    let mut viol_samples = Vec::new();
    for ((oracle, sig), vs) in &by_sig {
        let full_sig = format!("{oracle}: {sig}");
        let count: u64 = total.viol_count.iter().filter(|(k, _)| k.ends_with(&format!("|{oracle}|{sig}")) && k.split('|').next().map(|p| p.split('+').any(|x| x == prop)).unwrap_or(false)).map(|(_, c)| *c).sum();
        if let Some(k) = known.iter().find(|k| k.property == prop && k.sig == full_sig) {
            known_hits += 1;
            lines.push(format!("KNOWN-FINDING: property={prop} {} [{full_sig}] ({count} occurrences in this run)", k.what));
            continue;
        }
        new_violations += 1;
        let v = vs.iter().min_by_key(|v| (v["profile"].as_str().unwrap_or("").to_string(), v["index"].as_u64().unwrap_or(0))).unwrap();
        let (world, profile) = (v["world"].as_str().unwrap_or("A"), v["profile"].as_str().unwrap_or(""));
        let (index, rseed) = (v["index"].as_u64().unwrap_or(0), v["seed"].as_u64().unwrap_or(0));
        let detail = v["detail"].as_str().unwrap_or("");
        println!("violation of {prop}: {full_sig} — {detail} (world {world}/{profile} run {index} seed {rseed}; {count} occurrences)");
        // re-run to obtain the decision list, then minimise
        let cfg = gen_cfg(world, profile, rseed, index);
        let dir = sb.fresh();
        let t_rerun = Instant::now();
        let (out0, rep0) = exec(&cfg, rseed, None, false, &dir);
        close_leaked_fds(&base_fds);
        let reproduced = out0.violations.iter().any(|x| x.props.contains(&prop_static(prop)) && x.oracle == oracle.as_str() && x.sig == *sig);
        if !reproduced {
            harness_fail.push(format!("nondeterminism: violation {full_sig} of run {index} (seed {rseed}) did not reproduce in the orchestrator"));
            continue;
        }
        let heavy = t_rerun.elapsed().as_secs_f64() > 2.0;
        let (mcfg, mdec, tries) = if heavy {
            // one re-execution of this run costs seconds: keep the recorded decision list as it is
            (cfg, rep0.decisions.clone(), 0)
        } else {
            minimise(cfg, rseed, rep0.decisions.clone(), prop, oracle, sig, &sb, &base_fds)
        };
        let note = if heavy { format!("not minimised ({} decisions): a single re-execution takes {:.1}s", mdec.len(), t_rerun.elapsed().as_secs_f64()) } else { format!("minimised from {} decisions to {} in {} re-executions", rep0.decisions.len(), mdec.len(), tries) };
        match write_replay(prop, world, profile, index, rseed, &mcfg, &mdec, oracle, sig, detail, &sb, &base_fds, &note) {
            Some(path) => {
                // the replay file must reproduce in a fresh process
                let st = Command::new(std::env::current_exe().unwrap()).arg("replay").arg(&path).stdout(Stdio::null()).status().map(|s| s.code().unwrap_or(-1)).unwrap_or(-1);
                if st != 1 {
                    harness_fail.push(format!("replay file {} does not reproduce in a fresh process (exit {st})", path.display()));
                }
                println!("  {note}");
                lines.push(format!("VIOLATION property={prop} replay={}", path.display()));
                viol_samples.push(json!({"oracle": oracle, "sig": sig, "detail": detail, "replay": path.display().to_string(), "occurrences": count}));
            }
            None => harness_fail.push(format!("could not produce a replay file for {full_sig}")),
        }
    }
    // crashes / hangs of whole runs: violations for the properties that forbid them
    for c in &crashes {
        let what = c["what"].as_str().unwrap_or("");
        // a run that kills its process (abort inside an extern "C" client call, runaway loop) is a
        // violation of the properties that promise a clean answer; elsewhere it is a harness error
        let world_b = c["world"].as_str() == Some("B");
        if matches!(prop, "C14" | "C18" | "C15" | "C16") || (world_b && matches!(prop, "C05" | "C17")) {
            new_violations += 1;
            let dir = replay_dir();
            let _ = std::fs::create_dir_all(&dir);
            let path = dir.join(format!("{prop}-crash-{:016x}.json", c["seed"].as_u64().unwrap_or(0)));
            let cfg = gen_cfg(c["world"].as_str().unwrap(), c["profile"].as_str().unwrap(), c["seed"].as_u64().unwrap(), c["index"].as_u64().unwrap());
            let j = json!({"property": prop, "world": c["world"], "profile": c["profile"], "index": c["index"], "seed": c["seed"], "config": cfg.to_json(), "decisions": "", "expect": {"oracle": "process_crash", "sig": "crash", "event_hash": ""}, "violation": what});
            let _ = std::fs::write(&path, serde_json::to_string_pretty(&j).unwrap());
            lines.push(format!("VIOLATION property={prop} replay={}", path.display()));
        } else {
            harness_fail.push(format!("{what}: world {} profile {} run {} seed {}", c["world"], c["profile"], c["index"], c["seed"]));
        }
    }

    // ---- evidence ----
    let wall = t0.elapsed().as_secs_f64();
    let nontrivial_runs = total.nontrivial.get(prop).copied().unwrap_or(0);
    let mut faults = Map::new();
    let mut probes = Map::new();
    let mut judged = Map::new();
    let mut sites = Map::new();
    for (k, v) in &total.counters {
        if let Some(r) = k.strip_prefix("fault.") {
            faults.insert(r.to_string(), json!(v));
        } else if let Some(r) = k.strip_prefix("probe.") {
            probes.insert(r.to_string(), json!(v));
        } else if let Some(r) = k.strip_prefix("judged.") {
            judged.insert(r.to_string(), json!(v));
        } else if let Some(r) = k.strip_prefix("site.") {
            sites.insert(r.to_string(), json!(v));
        } else {
            probes.insert(k.to_string(), json!(v));
        }
    }
    let mut samples: Vec<Value> = total.samples.iter().take(3).cloned().collect();
    if samples.is_empty() {
        samples.push(json!({"note": "no non-trivial run in this batch", "plan": per_batch}));
    }
    let ev = json!({
        "property_id": prop,
        "tier": if tier == "thorough" { "thorough" } else { "quick" },
        "seed": seed as i64,
        "level": "exploration",
        "coverage": {
            "evaluations": total.runs,
            "distinct_nontrivial": total.fps.len(),
            "rule": crate::world_a::rule_text(prop).unwrap_or_else(|| crate::world_b::rule_text(prop)),
            "samples": samples,
            "nontrivial_runs": nontrivial_runs,
            "distinct_interleavings_all_runs": total.all_fps.len(),
            "distinct_abstract_states": total.states.len(),
            "distinct_values_covered": total.sets.iter().map(|(k, v)| (k.clone(), v.len())).collect::<BTreeMap<_, _>>(),
            "steps": total.steps,
            "context_switches": total.switches,
            "virtual_seconds": (total.virt_ns / 1_000_000_000) as u64,
            "runs_per_hour": if wall > 0.0 { (total.runs as f64 / wall * 3600.0) as u64 } else { 0 },
            "batches": per_batch,
            "faults_fired": faults,
            "probes": probes,
            "judged": judged,
            "crash_sites_reached": sites,
            "violation_signatures": viol_samples,
            "known_findings_hit": known_hits,
            "real_components": crate::world_a::real_components(prop),
            "stub_components": crate::world_a::stub_components(prop),
            "exhaustive": false,
        },
        "assumptions": crate::world_a::assumptions(prop),
        "wall_s": wall,
        "violations": new_violations,
    });
    let evdir = std::env::var_os("VERIF_EVIDENCE_DIR").map(PathBuf::from).unwrap_or_else(|| verif_root().join("evidence"));
    let _ = std::fs::create_dir_all(&evdir);
    if let Err(e) = std::fs::write(evdir.join(format!("{prop}.json")), serde_json::to_string_pretty(&ev).unwrap()) {
        harness_fail.push(format!("cannot write evidence: {e}"));
    }
    for l in &lines {
        println!("{l}");
    }
    println!("{prop} {tier}: runs={} nontrivial={} distinct={} new_violations={} known_findings={} wall={:.1}s", total.runs, nontrivial_runs, total.fps.len(), new_violations, known_hits, wall);
    if !harness_fail.is_empty() {
        for h in harness_fail.iter().take(20) {
            eprintln!("HARNESS-ERROR: {h}");
        }
        if new_violations == 0 {
            return 2;
        }
    }
    if new_violations > 0 {
        1
    } else {
        0
    }
}

// ------------------------------------------------------------------------------------------
// determinism, one
// ------------------------------------------------------------------------------------------

pub fn determinism(n: u64) -> i32 {
    let seed = base_seed();
    // (profile, cap on the number of seeds: the last five are heavy — millions of steps per run)
    let combos: Vec<(&str, &str, u64)> = vec![
        ("A", "sc", u64::MAX), ("A", "weak", u64::MAX), ("A", "sckill", u64::MAX), ("A", "weakkill", u64::MAX), ("A", "corrupt", u64::MAX), ("A", "busy", u64::MAX),
        ("B", "pipeline", u64::MAX), ("B", "restart", u64::MAX), ("B", "outage", u64::MAX), ("B", "coldstart", u64::MAX), ("B", "workerdeath", u64::MAX), ("B", "synthetic", u64::MAX), ("B", "tight", u64::MAX), ("B", "leap", u64::MAX), ("B", "formula", u64::MAX), ("B", "abi", u64::MAX),
        ("A", "deadwriter", 16), ("A", "sweep", 32), ("A", "sleeper", 4), ("A", "flood", 2), ("B", "epoch", 4),
    ];
    let mut bad = 0;
    let n_all = n;
    for (w, p, cap) in combos {
        let n = n_all.min(cap);
        let mut maps: Vec<BTreeMap<u64, u64>> = Vec::new();
        for nw in [1usize, 16, 7] {
            let res = run_workers(w, p, seed, n, "C00", true, nw);
            let mut agg = Agg::default();
            for r in &res {
                if let Some(s) = &r.summary {
                    agg.merge_json(s);
                }
            }
            maps.push(agg.hashes.iter().copied().collect());
        }
        let same = maps[0].len() as u64 == n && maps.iter().all(|m| *m == maps[0]);
        let diff = maps[0].iter().filter(|(i, h)| maps[1].get(i) != Some(h) || maps[2].get(i) != Some(h)).count();
        println!("determinism world={w} profile={p} seeds={n} executions=3 (1, 16 and 7 workers) identical={same} differing={diff}");
        if !same {
            bad += 1;
        }
    }
    if bad > 0 {
        2
    } else {
        0
    }
}

/// `cbsim survey <world> <profile> <n>`: all violation signatures (any property) of a batch.
pub fn survey(world: &str, profile: &str, n: u64) -> i32 {
    let seed = base_seed();
    let t = Instant::now();
    let res = run_workers(world, profile, seed, n, "C00", false, 16);
    let mut agg = Agg::default();
    for r in &res {
        if let Some(s) = &r.summary {
            agg.merge_json(s);
        }
        if r.status != 0 {
            println!("worker died: status {} last index {:?} hung {:?}", r.status, r.last_index, r.hung);
        }
    }
    println!("runs={} steps={} wall={:.1}s", agg.runs, agg.steps, t.elapsed().as_secs_f64());
    for (k, c) in &agg.viol_count {
        let ex = agg.violations.iter().find(|v| format!("{}|{}|{}", v["props"].as_array().unwrap().iter().map(|x| x.as_str().unwrap()).collect::<Vec<_>>().join("+"), v["oracle"].as_str().unwrap(), v["sig"].as_str().unwrap()) == *k);
        println!("{c:8} {k}");
        if let Some(e) = ex {
            println!("         e.g. run {} seed {}: {}", e["index"], e["seed"], e["detail"].as_str().unwrap_or(""));
        }
    }
    for e in &agg.harness_errors {
        println!("HARNESS {e}");
    }
    for (k, v) in &agg.counters {
        println!("  {k} = {v}");
    }
    println!("  nontrivial: {:?}", agg.nontrivial);
    0
}

pub fn one(world: &str, profile: &str, base: u64, index: u64) -> i32 {
    let seed = run_seed_of(base, world, profile, index);
    let cfg = gen_cfg(world, profile, seed, index);
    let sb = Sandbox::new();
    let dir = sb.fresh();
    println!("config: {}", cfg.to_json());
    let t = Instant::now();
    let (out, rep) = exec(&cfg, seed, None, std::env::var_os("VERIF_TRACE").is_some(), &dir);
    println!("steps={} switches={} virt={}ns hash={:x} decisions={} wall={:?}", rep.steps, rep.switches, rep.virt_ns, rep.hash, rep.decisions.len(), t.elapsed());
    println!("counters: {:?}", rep.counters);
    println!("probes: {:?}", out.probes);
    println!("nontrivial: {:?}", out.nontrivial);
    for l in render_trace(&rep, std::env::var("VERIF_TRACE_N").ok().and_then(|s| s.parse().ok()).unwrap_or(400)) {
        println!("  {l}");
    }
    if let Some(s) = &out.sample {
        println!("sample: {}", s);
    }
    for v in &out.violations {
        println!("VIOL {:?} {} [{}] {}", v.props, v.oracle, v.sig, v.detail);
    }
    for e in &out.harness_errors {
        println!("HARNESS {e}");
    }
    for (t, p) in &rep.panics {
        println!("panic in thread {t}: {p}");
    }
    0
}

#[allow(dead_code)]
pub fn path_exists(p: &Path) -> bool {
    p.exists()
}
