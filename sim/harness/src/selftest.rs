//! Engine self-tests (DESIGN.md §11): litmus tests for the memory model, timers, channels,
//! kill during a blocked receive, replay equality. Exit 0 iff all pass.

use std::sync::atomic::{AtomicU64, Ordering as O};
use std::sync::Arc;
use verif_rt::{Cfg, ProcSpec, RunSpec, Sched};

fn spec(seed: u64, cfg: Cfg, procs: Vec<ProcSpec>) -> RunSpec {
    RunSpec { seed, cfg, replay: None, observer: None, chrony: None, rt_off: None, procs, watchdog: std::time::Duration::from_secs(20) }
}

fn p(name: &str, f: impl FnOnce() + Send + 'static) -> ProcSpec {
    ProcSpec { name: name.into(), role: 0, f: Box::new(f) }
}

/// A private segment file mapped twice (writer rw, reader ro), registered with the engine so that
/// accesses through `verif_rt::atomic` types at the documented offsets are simulated.
struct Maps {
    w: *mut u8,
    r: *const u8,
}
unsafe impl Send for Maps {}
unsafe impl Sync for Maps {}

fn with_segment(dir: &std::path::Path) -> (std::fs::File, std::path::PathBuf) {
    let path = dir.join("litmus");
    let f = std::fs::OpenOptions::new().read(true).write(true).create(true).truncate(true).open(&path).unwrap();
    f.set_len(72).unwrap();
    (f, path)
}

fn map(f: &std::fs::File, write: bool) -> *mut u8 {
    use std::os::fd::AsRawFd;
    let prot = if write { libc::PROT_READ | libc::PROT_WRITE } else { libc::PROT_READ };
    let p = unsafe { libc::mmap(std::ptr::null_mut(), 72, prot, libc::MAP_SHARED, f.as_raw_fd(), 0) };
    assert!(p != libc::MAP_FAILED);
    p as *mut u8
}

/// Message passing: T1: data=1; flag=1 (order `st`). T2: r1=flag (order `ld`); r2=data.
/// Returns how often (r1,r2)==(1,0) was observed in `n` weak runs.
fn mp_litmus(n: u64, release_acquire: bool, fences: bool, weak: bool, sb: &crate::util::Sandbox) -> u64 {
    use verif_rt::atomic::{fence, AtomicU16, AtomicU64 as SimU64, Ordering};
    let mut bad = 0;
    for i in 0..n {
        let dir = sb.fresh();
        let (f, _path) = with_segment(&dir);
        let f = Arc::new(f);
        let seen = Arc::new(AtomicU64::new(0));
        let (f1, f2, s2) = (f.clone(), f.clone(), seen.clone());
        let cfg = Cfg { weak, stale_ppm: 500_000, sched: Sched::Random { switch_ppm: 400_000 }, ..Default::default() };
        let t1 = p("t1", move || {
            use std::os::fd::AsRawFd;
            let m = Maps { w: map(&f1, true), r: std::ptr::null() };
            verif_rt::shm::register_mapping_fd(m.w, 72, f1.as_raw_fd());
            let data = unsafe { &*(m.w.add(16) as *const SimU64) };
            let flag = unsafe { &*(m.w.add(14) as *const AtomicU16) };
            data.store(1, Ordering::Relaxed);
            if fences {
                fence(Ordering::Release);
            }
            flag.store(1, if release_acquire { Ordering::Release } else { Ordering::Relaxed });
            verif_rt::shm::unregister_mapping(m.w);
            unsafe { libc::munmap(m.w.cast(), 72) };
        });
        let t2 = p("t2", move || {
            use std::os::fd::AsRawFd;
            let m = Maps { w: std::ptr::null_mut(), r: map(&f2, false) };
            verif_rt::shm::register_mapping_fd(m.r, 72, f2.as_raw_fd());
            let data = unsafe { &*(m.r.add(16) as *const SimU64) };
            let flag = unsafe { &*(m.r.add(14) as *const AtomicU16) };
            let r1 = flag.load(if release_acquire { Ordering::Acquire } else { Ordering::Relaxed });
            if fences {
                fence(Ordering::Acquire);
            }
            let r2 = data.load(Ordering::Relaxed);
            if r1 == 1 && r2 == 0 {
                s2.store(1, O::SeqCst);
            }
            verif_rt::shm::unregister_mapping(m.r);
            unsafe { libc::munmap(m.r as *mut _, 72) };
        });
        let _ = verif_rt::run(spec(1000 + i, cfg, vec![t1, t2]));
        bad += seen.load(O::SeqCst);
    }
    bad
}

fn timers_and_channels() -> Result<(), String> {
    // recv_timeout fires at exactly the virtual deadline; a message sent earlier is received first
    let log = Arc::new(std::sync::Mutex::new(Vec::<(i64, &'static str)>::new()));
    let l1 = log.clone();
    let chan: Arc<std::sync::Mutex<Option<verif_rt::mpsc::Sender<u32>>>> = Arc::new(std::sync::Mutex::new(None));
    let c1 = chan.clone();
    let rx_t = p("rx", move || {
        let (tx, rx) = verif_rt::mpsc::channel::<u32>();
        *c1.lock().unwrap() = Some(tx);
        let t0 = verif_rt::now_ns();
        let r = rx.recv_timeout(std::time::Duration::from_millis(1000));
        l1.lock().unwrap().push((verif_rt::now_ns() - t0, if r.is_ok() { "msg" } else { "timeout" }));
        let t1 = verif_rt::now_ns();
        let r = rx.recv_timeout(std::time::Duration::from_millis(1000));
        l1.lock().unwrap().push((verif_rt::now_ns() - t1, if r.is_ok() { "msg" } else { "timeout" }));
    });
    let c2 = chan.clone();
    let tx_t = p("tx", move || {
        verif_rt::sleep_ns(300_000_000);
        let tx = c2.lock().unwrap().clone().unwrap();
        tx.send(7).unwrap();
        verif_rt::sleep_ns(5_000_000_000);
    });
    let rep = verif_rt::run(spec(3, Cfg::default(), vec![rx_t, tx_t]));
    let l = log.lock().unwrap().clone();
    if l.len() != 2 || l[0].1 != "msg" || l[0].0 != 300_000_000 || l[1].1 != "timeout" || l[1].0 != 1_000_000_000 {
        return Err(format!("timer/channel semantics wrong: {l:?}"));
    }
    if rep.deadlock || rep.hung {
        return Err("timer test deadlocked".into());
    }
    Ok(())
}

fn kill_blocked_receiver() -> Result<(), String> {
    // a process blocked in recv is killed: it unwinds, its supervisor continues
    let result = Arc::new(std::sync::Mutex::new(String::new()));
    let r1 = result.clone();
    let host = p("host", move || {
        let pid_cell = Arc::new(AtomicU64::new(0));
        let pc = pid_cell.clone();
        let h = verif_rt::thread::spawn(move || {
            let e = verif_rt::run_process(5, || {
                pc.store(verif_rt::current_pid() as u64, O::SeqCst);
                let (_tx, rx) = verif_rt::mpsc::channel::<u32>();
                let _ = rx.recv();
                "returned"
            });
            match e {
                verif_rt::Exit::Killed => "killed",
                verif_rt::Exit::Returned(_) => "returned",
                verif_rt::Exit::Panicked(_) => "panicked",
            }
        });
        verif_rt::sleep_ns(1000);
        verif_rt::kill_pid(pid_cell.load(O::SeqCst) as u32);
        let r = h.join().unwrap_or("join-failed");
        *r1.lock().unwrap() = r.to_string();
    });
    let rep = verif_rt::run(spec(4, Cfg::default(), vec![host]));
    let r = result.lock().unwrap().clone();
    if r != "killed" || rep.deadlock || rep.hung {
        return Err(format!("kill of a blocked receiver: got {r:?}, deadlock={}", rep.deadlock));
    }
    Ok(())
}

fn replay_equality(sb: &crate::util::Sandbox) -> Result<(), String> {
    // a recorded decision list replays to the identical event hash; world A, weak + kills
    for i in 0..40u64 {
        let seed = crate::run_seed_of(77, "A", "weakkill", i);
        let cfg = crate::gen_cfg("A", "weakkill", seed, i);
        let (_, r1) = crate::exec(&cfg, seed, None, false, &sb.fresh());
        let (_, r2) = crate::exec(&cfg, seed, Some(r1.decisions.clone()), false, &sb.fresh());
        let (_, r3) = crate::exec(&cfg, seed, None, false, &sb.fresh());
        if r1.hash != r2.hash || r1.hash != r3.hash || r1.steps != r2.steps {
            return Err(format!("replay differs for seed {seed}: {:x} vs {:x} vs {:x}", r1.hash, r2.hash, r3.hash));
        }
    }
    Ok(())
}

fn bench() {
    let n = 2000u64;
    let t = std::time::Instant::now();
    let mut steps = 0;
    for i in 0..n {
        let mk = |name: &str| p(name, || for _ in 0..20 { verif_rt::sched_yield(); });
        let rep = verif_rt::run(spec(i, Cfg::default(), vec![mk("a"), mk("b"), mk("c")]));
        steps += rep.steps;
    }
    let dt = t.elapsed().as_secs_f64();
    println!("bench: {n} runs x 3 threads x 20 yields: {:.0} runs/s, {:.0} ns/step", n as f64 / dt, dt * 1e9 / steps as f64);
}

pub fn run() -> i32 {
    let sb = crate::util::Sandbox::new();
    let base = crate::util::open_fds();
    let mut fails = 0;
    let mut check = |name: &str, r: Result<(), String>| match r {
        Ok(()) => println!("selftest {name}: ok"),
        Err(e) => {
            println!("selftest {name}: FAILED {e}");
            fails += 1;
        }
    };
    let n = 400;
    let relaxed = mp_litmus(n, false, false, true, &sb);
    check("mp relaxed: stale value reachable in weak mode", if relaxed > 0 { Ok(()) } else { Err("never observed (1,0)".into()) });
    let ra = mp_litmus(n, true, false, true, &sb);
    check("mp release/acquire: stale value unreachable", if ra == 0 { Ok(()) } else { Err(format!("observed (1,0) {ra} times")) });
    let fenced = mp_litmus(n, false, true, true, &sb);
    check("mp relaxed + release/acquire fences: stale value unreachable", if fenced == 0 { Ok(()) } else { Err(format!("observed (1,0) {fenced} times")) });
    let sc = mp_litmus(n, false, false, false, &sb);
    check("mp relaxed in SC mode: stale value unreachable", if sc == 0 { Ok(()) } else { Err(format!("observed (1,0) {sc} times")) });
    crate::util::close_leaked_fds(&base);
    check("virtual timers and channels", timers_and_channels());
    check("kill during a blocked receive", kill_blocked_receiver());
    check("replay equality (recorded decisions and re-execution)", replay_equality(&sb));
    crate::util::close_leaked_fds(&base);
    if std::env::var_os("VERIF_BENCH").is_some() {
        bench();
    }
    if fails > 0 {
        2
    } else {
        0
    }
}
