/*
 * C-side client used by the simulator for the ABI half of property C17.
 *
 * This translation unit is compiled by the C compiler against the *published* header
 * /repo/clock-bound-ffi/include/clockbound.h: struct layouts, enum values and prototypes come
 * from the header, the behaviour from the FFI crate it is linked with. Results are flattened
 * into plain integers so that the Rust side does not need to share any C struct definition.
 */
#include <stddef.h>
#include <stdint.h>
#include <string.h>
#include "clockbound.h"

struct cshim_result {
	int64_t ok;            /* 1 = success */
	int64_t err_kind;      /* clockbound_err_kind as declared in the header */
	int64_t sys_errno;
	int64_t has_detail;
	char detail[64];
	int64_t earliest_sec, earliest_nsec;
	int64_t latest_sec, latest_nsec;
	int64_t status;        /* clockbound_clock_status as declared in the header */
};

/* numeric values of the header's enumerators, for cross-checking against the documentation */
void cshim_constants(int64_t out[16]) {
	out[0] = CLOCKBOUND_ERR_NONE;
	out[1] = CLOCKBOUND_ERR_SYSCALL;
	out[2] = CLOCKBOUND_ERR_SEGMENT_NOT_INITIALIZED;
	out[3] = CLOCKBOUND_ERR_SEGMENT_MALFORMED;
	out[4] = CLOCKBOUND_ERR_CAUSALITY_BREACH;
	out[5] = CLOCKBOUND_STA_UNKNOWN;
	out[6] = CLOCKBOUND_STA_SYNCHRONIZED;
	out[7] = CLOCKBOUND_STA_FREE_RUNNING;
	out[8] = (int64_t)sizeof(clockbound_err);
	out[9] = (int64_t)sizeof(clockbound_now_result);
	out[10] = (int64_t)offsetof(clockbound_now_result, latest);
	out[11] = (int64_t)offsetof(clockbound_now_result, clock_status);
	out[12] = (int64_t)offsetof(clockbound_err, sys_errno);
	out[13] = (int64_t)offsetof(clockbound_err, detail);
}

static void fill_err(struct cshim_result *r, clockbound_err const *e) {
	r->ok = 0;
	r->err_kind = e->kind;
	r->sys_errno = e->sys_errno;
	r->has_detail = e->detail != NULL;
	if (e->detail != NULL) {
		strncpy(r->detail, e->detail, sizeof(r->detail) - 1);
	}
}

/* open; returns the context or NULL (error details in *r) */
/* One error struct re-used across opens and never cleared by the caller, as a C program retrying
 * "wait for the daemon" would do: whatever clockbound_open leaves in it is what the caller sees. */
static clockbound_err g_open_err;

void *cshim_open(char const *path, struct cshim_result *r) {
	memset(r, 0, sizeof(*r));
	clockbound_ctx *ctx = clockbound_open(path, &g_open_err);
	if (ctx == NULL) {
		fill_err(r, &g_open_err);
		return NULL;
	}
	r->ok = 1;
	return ctx;
}

void cshim_now(void *ctx, struct cshim_result *r) {
	clockbound_now_result out;
	memset(r, 0, sizeof(*r));
	memset(&out, 0, sizeof(out));
	clockbound_err const *e = clockbound_now((clockbound_ctx *)ctx, &out);
	if (e != NULL) {
		fill_err(r, e);
		return;
	}
	r->ok = 1;
	r->earliest_sec = out.earliest.tv_sec;
	r->earliest_nsec = out.earliest.tv_nsec;
	r->latest_sec = out.latest.tv_sec;
	r->latest_nsec = out.latest.tv_nsec;
	r->status = out.clock_status;
}

/* open with a NULL error pointer ("If err is non-null, fills *err"): 1 = opened, 0 = NULL returned */
int64_t cshim_open_null_err(char const *path) {
	clockbound_ctx *ctx = clockbound_open(path, NULL);
	if (ctx == NULL) {
		return 0;
	}
	clockbound_close(ctx);
	return 1;
}

int64_t cshim_close(void *ctx) {
	clockbound_err const *e = clockbound_close((clockbound_ctx *)ctx);
	return e == NULL ? 0 : 1;
}
