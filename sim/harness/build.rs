// Compiles csrc/cshim.c with the system C compiler against the repository's published header.
use std::process::Command;

fn main() {
    let out = std::env::var("OUT_DIR").unwrap();
    let header_dir = "/repo/clock-bound-ffi/include";
    println!("cargo:rerun-if-changed=csrc/cshim.c");
    println!("cargo:rerun-if-changed={header_dir}/clockbound.h");
    let obj = format!("{out}/cshim.o");
    let cc = std::env::var("CC").unwrap_or_else(|_| "gcc".into());
    let st = Command::new(&cc)
        .args(["-O1", "-g", "-Wall", "-Werror=implicit-function-declaration", "-fPIC", "-c", "csrc/cshim.c", "-I", header_dir, "-o", &obj])
        .status()
        .expect("run the C compiler");
    assert!(st.success(), "compiling cshim.c against clockbound.h failed");
    let lib = format!("{out}/libcshim.a");
    let _ = std::fs::remove_file(&lib);
    let st = Command::new("ar").args(["crs", &lib, &obj]).status().expect("run ar");
    assert!(st.success());
    println!("cargo:rustc-link-search=native={out}");
    println!("cargo:rustc-link-lib=static=cshim");
}
