//! verif_rt — deterministic simulation runtime for aws/clock-bound.
//!
//! One simulated execution ("run") at a time per OS process. Every simulated thread is a real
//! OS thread that is parked unless it holds the *baton*; every operation on shared state
//! (instrumented atomics, record copies, file-operation points, channels, clocks, thread
//! spawn/join) is a scheduling point at which a seeded scheduler decides who runs next.
//! All nondeterministic choices go through `decide_*`, are recorded, and can be replayed.
//!
//! See /verif/DESIGN.md §3.

#![allow(clippy::new_without_default)]

use std::any::Any;
use std::cell::RefCell;
use std::collections::BTreeMap;
use std::sync::{Arc, Condvar, Mutex, MutexGuard};

pub mod atomic;
pub mod chrony;
pub mod clock;
mod hashmap;
pub mod mem;
pub mod mpsc;
pub mod shm;
pub mod thread;
pub mod time;

pub use hashmap::HashMap;

pub type Tid = usize;

/// tags of the scheduling points that precede a simulated load / store (not logged themselves:
/// the Load / Store event follows unless the thread is killed at the point)
pub(crate) static TAG_LOAD: &str = "load";
pub(crate) static TAG_STORE: &str = "store";

/// Payload used to unwind a simulated thread whose process has been killed.
pub struct Killed;
/// Payload of an injected worker failure (fault_point).
pub struct Injected(pub &'static str);

// ---------------------------------------------------------------------------------------------
// configuration
// ---------------------------------------------------------------------------------------------

#[derive(Clone, Debug)]
pub enum Sched {
    /// continue the current thread unless a switch is drawn (probability `switch_ppm`)
    Random { switch_ppm: u32 },
    /// PCT-style: strict priorities with `depth` priority change points
    Pct { depth: u32, est_steps: u32 },
    /// adversarial alternation: thread i runs `quanta[i % len]` consecutive steps, then the next
    /// runnable thread (round robin) gets the baton
    PingPong { quanta: Vec<u32> },
    /// a scripted prefix: run thread `tid` for `steps` scheduling points, turn by turn, then fall
    /// back to random scheduling with the given switch rate
    Script { turns: Vec<(usize, u32)>, then_switch_ppm: u32 },
}

#[derive(Clone, Copy, Debug, PartialEq, Eq)]
pub enum FaultClass {
    /// kill the whole process at its n-th scheduling point
    Kill = 0,
    /// fail the n-th `point_io` of the process with errno `arg`
    IoErr = 1,
    /// panic at the n-th `fault_point` of the process
    Panic = 2,
}

#[derive(Clone, Debug)]
pub struct FaultSpec {
    pub role: u8,
    pub incarnation: u32,
    pub class: FaultClass,
    /// 0-based index among the process's occurrences of that class
    pub at: u32,
    pub arg: u32,
}

#[derive(Clone, Debug)]
pub struct Cfg {
    pub weak: bool,
    pub stale_ppm: u32,
    pub sched: Sched,
    pub field_perm: bool,
    pub step_cost_ns: i64,
    pub delay_ppm: u32,
    pub max_steps: u64,
    pub start_mono_ns: i64,
    pub tick_ns: i64,
    pub clock_lag_ppm: u32,
    pub clock_lag_max_ns: i64,
    pub clock_fail_ppm: u32,
    /// virtual time consumed by every clock_gettime call (the clock advances on every read)
    pub clock_read_cost_ns: i64,
    pub faults: Vec<FaultSpec>,
    pub hash_seed: u64,
    pub sandbox: std::path::PathBuf,
    pub trace: bool,
    /// directed preemptions: when `thread` is about to perform its `nth` load (or store) of
    /// location `loc`, thread `run` is scheduled for up to `steps` scheduling points first
    pub preempts: Vec<Preempt>,
}

#[derive(Clone, Debug)]
pub struct Preempt {
    pub thread: usize,
    pub store: bool,
    pub loc: u8,
    pub nth: u32,
    pub run: usize,
    pub steps: u32,
}

impl Default for Cfg {
    fn default() -> Self {
        Cfg {
            weak: false,
            stale_ppm: 0,
            sched: Sched::Random { switch_ppm: 300_000 },
            field_perm: false,
            step_cost_ns: 0,
            delay_ppm: 0,
            max_steps: 200_000,
            start_mono_ns: 1_000_000_000,
            tick_ns: 1,
            clock_lag_ppm: 0,
            clock_lag_max_ns: 0,
            clock_fail_ppm: 0,
            clock_read_cost_ns: 0,
            faults: Vec::new(),
            hash_seed: 0,
            sandbox: std::path::PathBuf::new(),
            trace: false,
            preempts: Vec::new(),
        }
    }
}

/// Scheduling points a thread may still pass inside a `nokill` section once the run is ending
/// (the segment world allows a call 10^8 accesses before it calls it unbounded; same scale here).
pub const NOKILL_OVERRUN: u64 = 120_000_000;

/// Long step delays ("preemptions") a thread can suffer at a scheduling point, in ns.
pub const DELAYS_NS: [i64; 8] = [
    10_000,
    1_000_000,
    4_000_000,
    30_000_000,
    300_000_000,
    1_500_000_000,
    3_100_000_000,
    5_000_000_000,
];

// decision kinds (only used for the human-readable trace)
pub const K_SWITCH: u8 = 1;
pub const K_PICK: u8 = 2;
pub const K_STALE: u8 = 3;
pub const K_STALEIDX: u8 = 4;
pub const K_PERM: u8 = 5;
pub const K_DELAY: u8 = 6;
pub const K_DELAYMAG: u8 = 7;
pub const K_LAG: u8 = 8;
pub const K_LAGMAG: u8 = 9;
pub const K_CLOCKFAIL: u8 = 10;
pub const K_PRIO: u8 = 11;
pub const K_CHG: u8 = 12;
pub const K_USER: u8 = 13;

// ---------------------------------------------------------------------------------------------
// events
// ---------------------------------------------------------------------------------------------

#[derive(Clone, Copy, Debug, PartialEq, Eq)]
#[repr(u8)]
pub enum EvKind {
    Point = 1,
    Load,
    Store,
    Fence,
    ClockRead,
    ClockFail,
    Send,
    SendFail,
    Recv,
    RecvTimeout,
    RecvDisc,
    Spawn,
    Finish,
    Kill,
    IoErr,
    InjPanic,
    Sleep,
    Delay,
    ChronyQuery,
    ChronyReply,
    Mark,
    Import,
    MapReg,
    MapUnreg,
    ProcStart,
    ProcEnd,
    Sigbus,
    Join,
    Deadlock,
    Budget,
    Sync,
}

#[derive(Clone, Debug)]
pub struct Event {
    pub step: u64,
    pub at: i64,
    pub tid: u32,
    pub kind: EvKind,
    pub tag: &'static str,
    pub a: u64,
    pub b: u64,
    pub c: u64,
}

/// Read-only view of the engine handed to the observer with each event.
pub struct EngView<'a> {
    s: &'a State,
}

impl<'a> EngView<'a> {
    pub fn now(&self) -> i64 {
        self.s.now
    }
    pub fn steps(&self) -> u64 {
        self.s.steps
    }
    pub fn thread_name(&self, tid: u32) -> &str {
        &self.s.th[tid as usize].name
    }
    pub fn thread_role(&self, tid: u32) -> u8 {
        self.s.th[tid as usize].role
    }
    pub fn thread_pid(&self, tid: u32) -> u32 {
        self.s.th[tid as usize].pid
    }
    pub fn thread_incarnation(&self, tid: u32) -> u32 {
        self.s.th[tid as usize].incarnation
    }
    pub fn nsegs(&self) -> usize {
        self.s.mem.segs.len()
    }
    /// File descriptor (read-only, owned by the engine) of the backing file of segment `seg`.
    pub fn seg_fd(&self, seg: usize) -> i32 {
        self.s.mem.segs[seg].fd
    }
    pub fn seg_file_len(&self, seg: usize) -> u64 {
        self.s.mem.segs[seg].file_len
    }
    /// Coherence-newest value of a location in the memory model.
    pub fn newest(&self, seg: usize, loc: usize) -> u64 {
        self.s.mem.newest_val(seg, loc)
    }
    pub fn weak(&self) -> bool {
        self.s.cfg.weak
    }
}

pub trait Observer: Send {
    fn on_event(&mut self, ev: &Event, v: &EngView<'_>);
}

// ---------------------------------------------------------------------------------------------
// engine state
// ---------------------------------------------------------------------------------------------

#[derive(Clone, Copy, PartialEq, Eq, Debug)]
pub(crate) enum St {
    Runnable,
    Blocked,
    Finished,
}

pub(crate) struct Th {
    cv: Arc<Condvar>,
    pub(crate) st: St,
    pub(crate) pid: u32,
    pub(crate) role: u8,
    pub(crate) incarnation: u32,
    pub(crate) name: String,
    pub(crate) cur: mem::View,
    pub(crate) acq: mem::View,
    pub(crate) rel: mem::View,
    pub(crate) kill: bool,
    /// the thread is dead for the simulation (killed and unwinding / zombie): all runtime
    /// operations it performs are no-ops
    pub(crate) dead: bool,
    wake_at: Option<i64>,
    pub(crate) timed_out: bool,
    prio: i64,
    joiners: Vec<Tid>,
    finish_code: u8,
    /// depth of sections through which a kill cannot unwind (extern "C" frames)
    nokill: u32,
    /// scheduling points passed inside a `nokill` section after the thread was told to die
    overrun: u64,
}

pub(crate) struct ProcCounters {
    points: u32,
    ios: u32,
    fps: u32,
}

pub struct State {
    pub(crate) th: Vec<Th>,
    done_tx: std::sync::mpsc::Sender<()>,
    jobs_started: u64,
    /// threads given up inside a call that cannot be unwound and never returned
    abandoned: u64,
    current: Option<Tid>,
    rng: u64,
    decisions: Vec<u32>,
    dkinds: Vec<u8>,
    replay: Option<Vec<u32>>,
    rpos: usize,
    pub(crate) cfg: Cfg,
    pub(crate) now: i64,
    pub(crate) steps: u64,
    switches: u64,
    hash: u64,
    sched_fp: u64,
    pub(crate) mem: mem::Mem,
    observer: Option<Box<dyn Observer>>,
    pub(crate) chrony: Option<Box<dyn chrony::ChronySim>>,
    pub(crate) rt_off: Option<Box<dyn FnMut(i64) -> i64 + Send>>,
    counters: BTreeMap<&'static str, u64>,
    trace: Vec<Event>,
    all_done: bool,
    ending: bool,
    deadlock: bool,
    budget_exhausted: bool,
    next_pid: u32,
    incarnations: BTreeMap<u8, u32>,
    proc_counters: BTreeMap<u32, ProcCounters>,
    pub(crate) next_chan: u64,
    pct_changes: Vec<u64>,
    pct_low: i64,
    pct_streak: (Tid, u32),
    script_pos: usize,
    script_used: u32,
    preempt_seen: Vec<u32>,
    forced: Option<(usize, u32)>,
    pub(crate) frozen_by: Option<Tid>,
    panics: Vec<(u32, String)>,
}

pub(crate) struct Shared {
    m: Mutex<State>,
    ctl: Condvar,
}

static ENG: Mutex<Option<Arc<Shared>>> = Mutex::new(None);
thread_local! {
    static ME: RefCell<Option<(Arc<Shared>, Tid)>> = const { RefCell::new(None) };
    static LAST_PANIC: RefCell<Option<String>> = const { RefCell::new(None) };
}

pub(crate) fn me() -> Option<(Arc<Shared>, Tid)> {
    ME.with(|m| m.borrow().clone())
}

fn global() -> Option<Arc<Shared>> {
    ENG.lock().unwrap_or_else(|e| e.into_inner()).clone()
}

fn fnv(h: &mut u64, x: u64) {
    *h = (*h ^ x).wrapping_mul(0x100000001b3);
}

fn tag_hash(t: &str) -> u64 {
    let mut h = 0xcbf29ce484222325u64;
    for b in t.bytes() {
        fnv(&mut h, b as u64);
    }
    h
}

thread_local! {
    static TAG_CACHE: RefCell<Vec<(usize, usize, u64)>> = const { RefCell::new(Vec::new()) };
}

/// `tag_hash` memoised by the address of the (static) string.
fn tag_hash_static(t: &'static str) -> u64 {
    if t.is_empty() {
        return 0xcbf29ce484222325u64;
    }
    TAG_CACHE.with(|c| {
        let mut c = c.borrow_mut();
        let key = (t.as_ptr() as usize, t.len());
        if let Some(e) = c.iter().find(|e| e.0 == key.0 && e.1 == key.1) {
            return e.2;
        }
        let h = tag_hash(t);
        if c.len() < 64 {
            c.push((key.0, key.1, h));
        }
        h
    })
}

pub fn splitmix(x: &mut u64) -> u64 {
    *x = x.wrapping_add(0x9E3779B97F4A7C15);
    let mut z = *x;
    z = (z ^ (z >> 30)).wrapping_mul(0xBF58476D1CE4E5B9);
    z = (z ^ (z >> 27)).wrapping_mul(0x94D049BB133111EB);
    z ^ (z >> 31)
}

impl State {
    fn rnd(&mut self) -> u64 {
        splitmix(&mut self.rng)
    }

    /// Uniform decision in `0..dom`; 0 is the quiet choice.
    pub(crate) fn decide_n(&mut self, kind: u8, dom: u32) -> u32 {
        if dom <= 1 {
            return 0;
        }
        let v = match &self.replay {
            Some(r) => {
                let v = r.get(self.rpos).copied().unwrap_or(0);
                self.rpos += 1;
                v.min(dom - 1)
            }
            None => (self.rnd() % dom as u64) as u32,
        };
        self.decisions.push(v);
        if self.cfg.trace {
            self.dkinds.push(kind);
        }
        v
    }

    /// Bernoulli decision with probability `ppm`/1e6; `false` is the quiet choice.
    pub(crate) fn decide_p(&mut self, kind: u8, ppm: u32) -> bool {
        if ppm == 0 {
            return false;
        }
        let v = match &self.replay {
            Some(r) => {
                let v = r.get(self.rpos).copied().unwrap_or(0);
                self.rpos += 1;
                v.min(1)
            }
            None => ((self.rnd() % 1_000_000) < ppm as u64) as u32,
        };
        self.decisions.push(v);
        if self.cfg.trace {
            self.dkinds.push(kind);
        }
        v != 0
    }

    pub(crate) fn count(&mut self, name: &'static str) {
        *self.counters.entry(name).or_insert(0) += 1;
    }

    pub(crate) fn count_n(&mut self, name: &'static str, n: u64) {
        *self.counters.entry(name).or_insert(0) += n;
    }

    pub(crate) fn log(&mut self, tid: Tid, kind: EvKind, tag: &'static str, a: u64, b: u64, c: u64) {
        let ev = Event { step: self.steps, at: self.now, tid: tid as u32, kind, tag, a, b, c };
        let th = tag_hash_static(tag);
        for x in [tid as u64, kind as u64, th, a, b, c, self.now as u64] {
            fnv(&mut self.hash, x);
        }
        let role = self.th.get(tid).map(|t| t.role).unwrap_or(255) as u64;
        match kind {
            EvKind::Load | EvKind::Store => {
                for x in [role, kind as u64, a] {
                    fnv(&mut self.sched_fp, x);
                }
            }
            EvKind::Point | EvKind::Send | EvKind::Recv | EvKind::ClockRead | EvKind::Kill | EvKind::IoErr | EvKind::InjPanic => {
                for x in [role, kind as u64, th] {
                    fnv(&mut self.sched_fp, x);
                }
            }
            EvKind::Mark if tag.starts_with("fp:") => {
                for x in [role, th, a, b, c] {
                    fnv(&mut self.sched_fp, x);
                }
            }
            _ => {}
        }
        if let Some(mut o) = self.observer.take() {
            o.on_event(&ev, &EngView { s: self });
            self.observer = Some(o);
        }
        if self.cfg.trace && self.trace.len() < 200_000 {
            self.trace.push(ev);
        }
    }

    fn fire_timers(&mut self) {
        let now = self.now;
        for t in self.th.iter_mut() {
            if t.st == St::Blocked {
                if let Some(w) = t.wake_at {
                    if w <= now {
                        t.st = St::Runnable;
                        t.wake_at = None;
                        t.timed_out = true;
                    }
                }
            }
        }
    }

    pub(crate) fn make_runnable(&mut self, t: Tid) {
        let th = &mut self.th[t];
        if th.st == St::Blocked {
            th.st = St::Runnable;
            th.wake_at = None;
        }
    }

    pub(crate) fn kill_thread(&mut self, t: Tid) {
        let th = &mut self.th[t];
        if th.st == St::Finished || th.dead {
            return;
        }
        th.kill = true;
        if th.st == St::Blocked {
            th.st = St::Runnable;
            th.wake_at = None;
        }
    }

    pub(crate) fn kill_process(&mut self, pid: u32, by: Tid) {
        self.log(by, EvKind::Kill, "", pid as u64, 0, 0);
        for t in 0..self.th.len() {
            if self.th[t].pid == pid {
                self.kill_thread(t);
            }
        }
    }

    fn begin_shutdown(&mut self, except: Option<Tid>) {
        self.ending = true;
        for t in 0..self.th.len() {
            if Some(t) != except {
                self.kill_thread(t);
            }
        }
    }

    /// Choose the next thread to run. `None` means every thread has finished.
    fn pick_next(&mut self, me: Option<Tid>) -> Option<Tid> {
        if let (Some(f), Some(m)) = (self.frozen_by, me) {
            if f == m && self.th[m].st == St::Runnable {
                return Some(m);
            }
        }
        loop {
            let runnable: Vec<Tid> = (0..self.th.len()).filter(|&i| self.th[i].st == St::Runnable).collect();
            if runnable.is_empty() {
                // idle: jump to the earliest timer
                let next = self.th.iter().filter(|t| t.st == St::Blocked).filter_map(|t| t.wake_at).min();
                if let Some(w) = next {
                    if w > self.now {
                        self.now = w;
                    }
                    self.fire_timers();
                    continue;
                }
                if self.th.iter().all(|t| t.st == St::Finished) {
                    return None;
                }
                // blocked for ever
                if !self.ending {
                    self.deadlock = true;
                    self.log(me.unwrap_or(0), EvKind::Deadlock, "", 0, 0, 0);
                }
                self.begin_shutdown(None);
                continue;
            }
            if let Some((t, n)) = self.forced {
                if n > 0 && t < self.th.len() && self.th[t].st == St::Runnable {
                    self.forced = Some((t, n - 1));
                    return Some(t);
                }
                self.forced = None;
            }
            if let Sched::Script { turns, .. } = &self.cfg.sched {
                // a scripted prefix counts every scheduling point, also when only one thread can run
                let turns = turns.clone();
                while self.script_pos < turns.len() {
                    let (t, n) = turns[self.script_pos];
                    if self.script_used < n && t < self.th.len() && self.th[t].st == St::Runnable {
                        self.script_used += 1;
                        return Some(t);
                    }
                    self.script_pos += 1;
                    self.script_used = 0;
                }
            }
            if runnable.len() == 1 {
                return Some(runnable[0]);
            }
            match self.cfg.sched.clone() {
                Sched::Random { switch_ppm } => {
                    if let Some(m) = me {
                        if self.th[m].st == St::Runnable {
                            // threads being torn down at the end of a run are not worth exploring
                            let p = if self.ending { 0 } else { switch_ppm };
                            if !self.decide_p(K_SWITCH, p) {
                                return Some(m);
                            }
                            let others: Vec<Tid> = runnable.into_iter().filter(|&i| i != m).collect();
                            let k = self.decide_n(K_PICK, others.len() as u32) as usize;
                            return Some(others[k]);
                        }
                    }
                    let k = if self.ending { 0 } else { self.decide_n(K_PICK, runnable.len() as u32) as usize };
                    return Some(runnable[k]);
                }
                Sched::Script { turns, then_switch_ppm } => {
                    // follow the script while it lasts
                    while self.script_pos < turns.len() {
                        let (t, n) = turns[self.script_pos];
                        if self.script_used < n && t < self.th.len() && self.th[t].st == St::Runnable {
                            self.script_used += 1;
                            return Some(t);
                        }
                        self.script_pos += 1;
                        self.script_used = 0;
                    }
                    if let Some(m) = me {
                        if self.th[m].st == St::Runnable {
                            let p = if self.ending { 0 } else { then_switch_ppm };
                            if !self.decide_p(K_SWITCH, p) {
                                return Some(m);
                            }
                            let others: Vec<Tid> = runnable.into_iter().filter(|&i| i != m).collect();
                            let k = self.decide_n(K_PICK, others.len() as u32) as usize;
                            return Some(others[k]);
                        }
                    }
                    let k = if self.ending { 0 } else { self.decide_n(K_PICK, runnable.len() as u32) as usize };
                    return Some(runnable[k]);
                }
                Sched::PingPong { quanta } => {
                    if let Some(m) = me {
                        if self.th[m].st == St::Runnable {
                            let q = quanta[m % quanta.len().max(1)].max(1);
                            if self.pct_streak.0 == m && self.pct_streak.1 + 1 < q {
                                self.pct_streak.1 += 1;
                                return Some(m);
                            }
                            let next = runnable.iter().copied().find(|&i| i > m).unwrap_or(runnable[0]);
                            self.pct_streak = (next, 0);
                            return Some(next);
                        }
                    }
                    self.pct_streak = (runnable[0], 0);
                    return Some(runnable[0]);
                }
                Sched::Pct { .. } => {
                    let best = runnable.iter().copied().max_by_key(|&i| (self.th[i].prio, std::cmp::Reverse(i))).unwrap();
                    return Some(best);
                }
            }
        }
    }

    fn new_thread(&mut self, name: String, pid: u32, role: u8, incarnation: u32) -> Tid {
        let prio = match self.cfg.sched {
            Sched::Pct { depth, .. } => 1000 + depth as i64 + self.decide_n(K_PRIO, 1000) as i64,
            _ => 0,
        };
        let n = self.mem.newest_view();
        self.th.push(Th {
            cv: Arc::new(Condvar::new()),
            st: St::Runnable,
            pid,
            role,
            incarnation,
            name,
            cur: n,
            acq: Vec::new(),
            rel: Vec::new(),
            kill: false,
            dead: false,
            wake_at: None,
            timed_out: false,
            prio,
            joiners: Vec::new(),
            finish_code: 0,
            nokill: 0,
            overrun: 0,
        });
        self.th.len() - 1
    }

    fn proc_counters(&mut self, pid: u32) -> &mut ProcCounters {
        self.proc_counters.entry(pid).or_insert(ProcCounters { points: 0, ios: 0, fps: 0 })
    }

    /// Look up the fault plan for the process of `me`; returns the matching spec's arg.
    fn fault_hit(&mut self, me: Tid, class: FaultClass) -> Option<u32> {
        if self.cfg.faults.is_empty() || self.ending {
            return None;
        }
        let (pid, role, inc) = (self.th[me].pid, self.th[me].role, self.th[me].incarnation);
        let pc = self.proc_counters(pid);
        let n = match class {
            FaultClass::Kill => {
                pc.points += 1;
                pc.points - 1
            }
            FaultClass::IoErr => {
                pc.ios += 1;
                pc.ios - 1
            }
            FaultClass::Panic => {
                pc.fps += 1;
                pc.fps - 1
            }
        };
        self.cfg
            .faults
            .iter()
            .find(|f| f.class == class && f.role == role && f.incarnation == inc && f.at == n)
            .map(|f| f.arg)
    }
}

impl Shared {
    pub(crate) fn lock(&self) -> MutexGuard<'_, State> {
        self.m.lock().unwrap_or_else(|e| e.into_inner())
    }

    /// Hand the baton to whoever the scheduler picks; returns once `me` holds it again.
    fn reschedule<'a>(&'a self, mut s: MutexGuard<'a, State>, me: Tid) -> MutexGuard<'a, State> {
        let next = s.pick_next(Some(me)).expect("current thread is not finished");
        if next == me {
            return s;
        }
        s.switches += 1;
        s.current = Some(next);
        s.th[next].cv.notify_one();
        let cv = s.th[me].cv.clone();
        while s.current != Some(me) {
            s = cv.wait(s).unwrap_or_else(|e| e.into_inner());
        }
        s
    }

    /// Block the calling thread until woken by `make_runnable`, a timer or a kill.
    /// Returns true if the timer fired.
    pub(crate) fn block(&self, me: Tid, wake_at: Option<i64>) -> bool {
        let mut s = self.lock();
        if s.th[me].dead {
            return false;
        }
        s.th[me].st = St::Blocked;
        s.th[me].wake_at = wake_at;
        s.th[me].timed_out = false;
        s = self.reschedule(s, me);
        let to = s.th[me].timed_out;
        s.th[me].timed_out = false;
        check_kill(s, me);
        to
    }

    fn finish(&self, me: Tid, code: u8) {
        let mut s = self.lock();
        s.th[me].st = St::Finished;
        s.th[me].dead = true;
        s.th[me].finish_code = code;
        let js = std::mem::take(&mut s.th[me].joiners);
        for j in js {
            s.make_runnable(j);
        }
        s.log(me, EvKind::Finish, "", code as u64, 0, 0);
        match s.pick_next(None) {
            Some(n) => {
                s.current = Some(n);
                s.th[n].cv.notify_one();
            }
            None => {
                s.current = None;
                s.all_done = true;
                self.ctl.notify_all();
            }
        }
    }
}

/// If the thread has been killed: mark it dead and unwind (unless a panic is already unwinding,
/// in which case the thread just stops interacting with the simulation).
pub(crate) fn check_kill(mut s: MutexGuard<'_, State>, me: Tid) {
    if s.th[me].kill && !s.th[me].dead && s.th[me].nokill == 0 {
        s.th[me].dead = true;
        drop(s);
        if !std::thread::panicking() {
            std::panic::panic_any(Killed);
        }
    }
}

/// The universal scheduling point. Returns false if the caller is not a live simulated thread.
pub(crate) fn yield_point(kind: EvKind, tag: &'static str, a: u64) -> bool {
    let Some((sh, me)) = me() else { return false };
    let mut s = sh.lock();
    if s.th[me].dead {
        return false;
    }
    s.steps += 1;
    let frozen = s.frozen_by == Some(me);
    if !frozen {
        s.now += s.cfg.step_cost_ns;
        if s.cfg.step_cost_ns > 0 {
            s.fire_timers();
        }
    }
    if s.steps > s.cfg.max_steps && !s.ending {
        s.budget_exhausted = true;
        s.log(me, EvKind::Budget, "", 0, 0, 0);
        s.begin_shutdown(None);
    }
    if s.ending && s.th[me].kill && s.th[me].nokill > 0 {
        // the run is over and this thread sits in a call that cannot be unwound (foreign frames):
        // it gets the longest any bounded call can take, then it is given up (the run is reported
        // as hung) and its OS thread parked for good
        s.th[me].overrun += 1;
        if s.th[me].overrun > NOKILL_OVERRUN {
            s.abandoned += 1;
            s.log(me, EvKind::Budget, "abandoned", 0, 0, 0);
            s.th[me].st = St::Finished;
            s.th[me].dead = true;
            s.th[me].finish_code = 3;
            let js = std::mem::take(&mut s.th[me].joiners);
            for j in js {
                s.make_runnable(j);
            }
            match s.pick_next(None) {
                Some(n) => {
                    s.current = Some(n);
                    s.th[n].cv.notify_one();
                }
                None => {
                    s.current = None;
                    s.all_done = true;
                    sh.ctl.notify_all();
                }
            }
            drop(s);
            loop {
                std::thread::park();
            }
        }
    }
    if !(kind == EvKind::Point && (std::ptr::eq(tag, TAG_LOAD) || std::ptr::eq(tag, TAG_STORE))) {
        s.log(me, kind, tag, a, 0, 0);
    } else if !s.cfg.preempts.is_empty() {
        let is_store = std::ptr::eq(tag, TAG_STORE);
        for i in 0..s.cfg.preempts.len() {
            let p = s.cfg.preempts[i].clone();
            if p.thread == me && p.store == is_store && (a & 0xff) as u8 == p.loc {
                s.preempt_seen[i] += 1;
                if s.preempt_seen[i] == p.nth {
                    s.forced = Some((p.run, p.steps));
                }
            }
        }
    }
    if let Sched::Pct { .. } = s.cfg.sched {
        let st = s.steps;
        if s.pct_changes.iter().any(|&c| c == st) {
            s.pct_low -= 1;
            s.th[me].prio = s.pct_low;
        }
        // fairness bound: strict priorities would let a spinning thread starve the thread it waits for
        if s.pct_streak.0 == me {
            s.pct_streak.1 += 1;
            if s.pct_streak.1 >= 400 {
                s.pct_low -= 1;
                s.th[me].prio = s.pct_low;
                s.pct_streak.1 = 0;
            }
        } else {
            s.pct_streak = (me, 0);
        }
    }
    if !frozen && s.fault_hit(me, FaultClass::Kill).is_some() {
        let pid = s.th[me].pid;
        s.count("fault.kill");
        s.kill_process(pid, me);
    }
    if s.th[me].kill && s.th[me].nokill == 0 {
        check_kill(s, me);
        return false;
    }
    if s.cfg.delay_ppm > 0 && !s.ending && !frozen {
        let p = s.cfg.delay_ppm;
        if s.decide_p(K_DELAY, p) {
            let k = s.decide_n(K_DELAYMAG, DELAYS_NS.len() as u32) as usize;
            let d = DELAYS_NS[k];
            s.count("fault.delay");
            if d >= 1_000_000_000 {
                s.count("fault.delay_ge_1s");
            }
            s.log(me, EvKind::Delay, tag, d as u64, 0, 0);
            s.th[me].st = St::Blocked;
            s.th[me].wake_at = Some(s.now + d);
        }
    }
    s = sh.reschedule(s, me);
    s.th[me].timed_out = false;
    if s.th[me].kill && s.th[me].nokill == 0 {
        check_kill(s, me);
        return false;
    }
    true
}

// ---------------------------------------------------------------------------------------------
// public API for hooks in the code under test
// ---------------------------------------------------------------------------------------------

/// Scheduling / crash point between two steps of the code under test.
pub fn point(tag: &'static str) {
    yield_point(EvKind::Point, tag, 0);
}

/// Scheduling / crash point before a file operation; may inject an I/O error.
pub fn point_io(tag: &'static str) -> std::io::Result<()> {
    if !yield_point(EvKind::Point, tag, 1) {
        return Ok(());
    }
    let Some((sh, me)) = me() else { return Ok(()) };
    let mut s = sh.lock();
    s.mem.file_dirty = true;
    mem::import_all(&mut s, me);
    if let Some(e) = s.fault_hit(me, FaultClass::IoErr) {
        s.count("fault.io_error");
        s.log(me, EvKind::IoErr, tag, e as u64, 0, 0);
        return Err(std::io::Error::from_raw_os_error(e as i32));
    }
    Ok(())
}

/// Point at which a worker thread may be made to fail (panic).
pub fn fault_point(tag: &'static str) {
    if !yield_point(EvKind::Point, tag, 2) {
        return;
    }
    let Some((sh, me)) = me() else { return };
    let mut s = sh.lock();
    if s.fault_hit(me, FaultClass::Panic).is_some() {
        s.count("fault.worker_panic");
        s.log(me, EvKind::InjPanic, tag, 0, 0, 0);
        drop(s);
        std::panic::panic_any(Injected(tag));
    }
}

// ---------------------------------------------------------------------------------------------
// public API for the harness
// ---------------------------------------------------------------------------------------------

/// A user-visible marker event (call begin/end, results…); not a scheduling point.
pub fn mark(tag: &'static str, a: u64, b: u64, c: u64) {
    let Some((sh, me)) = me() else { return };
    let mut s = sh.lock();
    if s.th[me].dead {
        return;
    }
    s.log(me, EvKind::Mark, tag, a, b, c);
}

/// Run `f` as one frozen simulator step: no other thread runs, virtual time stands still, no
/// faults or stale loads are injected (used for paired observations).
pub fn freeze<R>(f: impl FnOnce() -> R) -> R {
    let Some((sh, me)) = me() else { return f() };
    {
        let mut s = sh.lock();
        if s.th[me].dead {
            drop(s);
            return f();
        }
        s.frozen_by = Some(me);
        let n = s.mem.newest_view();
        mem::join(&mut s.th[me].cur, &n);
    }
    struct Unfreeze(Arc<Shared>);
    impl Drop for Unfreeze {
        fn drop(&mut self) {
            self.0.lock().frozen_by = None;
        }
    }
    let _g = Unfreeze(sh);
    f()
}

/// Run `f` (code containing frames a panic cannot unwind through, e.g. `extern "C"` functions)
/// with kills deferred until it returns.
pub fn nokill<R>(f: impl FnOnce() -> R) -> R {
    let Some((sh, me)) = me() else { return f() };
    sh.lock().th[me].nokill += 1;
    let r = f();
    let mut s = sh.lock();
    s.th[me].nokill -= 1;
    if s.th[me].nokill == 0 {
        check_kill(s, me);
    }
    r
}

/// Marker event carrying the hash of the leading identifier of `text` (e.g. an enum variant
/// name taken from a `Debug` rendering); not a scheduling point.
pub fn note(tag: &'static str, text: &str) {
    let ident: &str = text.split(|c: char| !(c.is_alphanumeric() || c == '_')).next().unwrap_or("");
    mark(tag, tag_hash(ident), 0, 0);
}

pub fn ident_hash(ident: &str) -> u64 {
    tag_hash(ident)
}

/// Plain scheduling point for harness code.
pub fn sched_yield() {
    yield_point(EvKind::Point, "yield", 0);
}

/// Scheduling point that also tells a priority scheduler that the caller is waiting for others.
pub fn yield_hint() {
    if let Some((sh, me)) = me() {
        let mut s = sh.lock();
        if let Sched::Pct { .. } = s.cfg.sched {
            s.pct_low -= 1;
            s.th[me].prio = s.pct_low;
        }
    }
    yield_point(EvKind::Point, "yield_hint", 0);
}

pub fn now_ns() -> i64 {
    match me() {
        Some((sh, _)) => sh.lock().now,
        None => 0,
    }
}

pub fn sleep_ns(d: i64) {
    let Some((sh, me)) = me() else { return };
    if !yield_point(EvKind::Sleep, "", d as u64) {
        return;
    }
    let wake = sh.lock().now + d.max(0);
    sh.block(me, Some(wake));
}

pub fn sleep_until(m: i64) {
    let Some((sh, me)) = me() else { return };
    if !yield_point(EvKind::Sleep, "until", m as u64) {
        return;
    }
    if sh.lock().now >= m {
        return;
    }
    sh.block(me, Some(m));
}

/// Harness-level random choice drawn from the schedule stream (recorded, replayable).
pub fn choose(dom: u32) -> u32 {
    match me() {
        Some((sh, _)) => sh.lock().decide_n(K_USER, dom),
        None => 0,
    }
}

pub fn count(name: &'static str) {
    if let Some((sh, _)) = me() {
        sh.lock().count(name);
    }
}

pub fn count_n(name: &'static str, n: u64) {
    if let Some((sh, _)) = me() {
        sh.lock().count_n(name, n);
    }
}

/// End the run: every other simulated thread is killed; the caller continues (and should return).
pub fn shutdown() {
    let Some((sh, me)) = me() else { return };
    let mut s = sh.lock();
    s.begin_shutdown(Some(me));
}

pub fn is_ending() -> bool {
    match me() {
        Some((sh, _)) => sh.lock().ending,
        None => true,
    }
}

/// Kill every thread of the process with the given pid (not a scheduling point).
pub fn kill_pid(pid: u32) {
    let Some((sh, me)) = me() else { return };
    let mut s = sh.lock();
    s.count("fault.kill");
    s.kill_process(pid, me);
}

pub fn current_tid() -> u32 {
    match me() {
        Some((_, me)) => me as u32,
        None => u32::MAX,
    }
}

pub fn current_pid() -> u32 {
    match me() {
        Some((sh, me)) => sh.lock().th[me].pid,
        None => 0,
    }
}

#[derive(Debug)]
pub enum Exit<R> {
    Returned(R),
    Killed,
    Panicked(String),
}

/// Run `f` on the calling simulated thread as the main thread of a *new process* of the given
/// role. A kill of that process unwinds `f`; afterwards all other threads of the process are
/// killed (as process exit would) and waited for.
pub fn run_process<R>(role: u8, f: impl FnOnce() -> R) -> Exit<R> {
    let Some((sh, me)) = me() else { return Exit::Returned(f()) };
    let (old_pid, old_role, old_inc, pid);
    {
        let mut s = sh.lock();
        if s.th[me].dead {
            return Exit::Killed;
        }
        old_pid = s.th[me].pid;
        old_role = s.th[me].role;
        old_inc = s.th[me].incarnation;
        pid = s.next_pid;
        s.next_pid += 1;
        let inc = {
            let e = s.incarnations.entry(role).or_insert(0);
            *e += 1;
            *e - 1
        };
        s.th[me].pid = pid;
        s.th[me].role = role;
        s.th[me].incarnation = inc;
        // a new process starts with an up-to-date view of memory
        let n = s.mem.newest_view();
        s.th[me].cur = n;
        s.th[me].acq = Vec::new();
        s.th[me].rel = Vec::new();
        s.log(me, EvKind::ProcStart, "", pid as u64, role as u64, inc as u64);
    }
    let r = std::panic::catch_unwind(std::panic::AssertUnwindSafe(f));
    // process exit: reap the other threads
    let mut s = sh.lock();
    let ending = s.ending;
    let was_killed = s.th[me].kill || s.th[me].dead;
    // the supervising thread survives the death of the process it hosted, unless the run is ending
    if !ending {
        s.th[me].kill = false;
        s.th[me].dead = false;
    }
    for t in 0..s.th.len() {
        if t != me && s.th[t].pid == pid {
            s.kill_thread(t);
        }
    }
    s.th[me].pid = old_pid;
    s.th[me].role = old_role;
    s.th[me].incarnation = old_inc;
    s.mem.drop_mappings_of(pid);
    if s.mem.file_dirty {
        mem::import_all(&mut s, me);
        s.mem.file_dirty = false;
    }
    let code = match &r {
        Ok(_) => 0,
        Err(p) if p.is::<Killed>() => 2,
        Err(_) => 1,
    };
    s.log(me, EvKind::ProcEnd, "", pid as u64, code, 0);
    drop(s);
    // wait for the reaped threads to finish unwinding
    loop {
        let mut s = sh.lock();
        if s.th[me].dead {
            break;
        }
        let pending: Vec<Tid> = (0..s.th.len()).filter(|&t| t != me && s.th[t].pid == pid && s.th[t].st != St::Finished).collect();
        if pending.is_empty() {
            break;
        }
        s.th[pending[0]].joiners.push(me);
        drop(s);
        sh.block(me, None);
    }
    let _ = was_killed;
    match r {
        Ok(v) => Exit::Returned(v),
        Err(p) => {
            if p.is::<Killed>() {
                if ending {
                    // propagate: the run is over
                    std::panic::resume_unwind(p);
                }
                Exit::Killed
            } else {
                Exit::Panicked(panic_message(&p))
            }
        }
    }
}

pub fn panic_message(p: &Box<dyn Any + Send>) -> String {
    if let Some(s) = p.downcast_ref::<&str>() {
        s.to_string()
    } else if let Some(s) = p.downcast_ref::<String>() {
        s.clone()
    } else if let Some(i) = p.downcast_ref::<Injected>() {
        format!("injected failure at {}", i.0)
    } else if p.is::<Killed>() {
        "killed".to_string()
    } else {
        "panic".to_string()
    }
}

/// Install a panic hook that keeps simulated-thread panics off stderr (they are part of the
/// behaviour under test and are recorded instead).
pub fn install_panic_hook() {
    let default = std::panic::take_hook();
    std::panic::set_hook(Box::new(move |info| {
        let p = info.payload();
        if p.is::<Killed>() || p.is::<Injected>() {
            return;
        }
        if let Some((sh, me)) = me() {
            let msg = if let Some(s) = p.downcast_ref::<&str>() {
                s.to_string()
            } else if let Some(s) = p.downcast_ref::<String>() {
                s.clone()
            } else {
                "panic".into()
            };
            let loc = info.location().map(|l| format!("{}:{}", l.file(), l.line())).unwrap_or_default();
            let full = format!("{msg} @ {loc}");
            LAST_PANIC.with(|l| *l.borrow_mut() = Some(full.clone()));
            if let Ok(mut s) = sh.m.try_lock() {
                s.panics.push((me as u32, full));
            }
            if std::env::var_os("VERIF_SHOW_PANICS").is_some() {
                default(info);
            }
            return;
        }
        default(info);
    }));
}

pub fn take_last_panic() -> Option<String> {
    LAST_PANIC.with(|l| l.borrow_mut().take())
}

pub struct ProcSpec {
    pub name: String,
    pub role: u8,
    pub f: Box<dyn FnOnce() + Send>,
}

pub struct RunSpec {
    pub seed: u64,
    pub cfg: Cfg,
    pub replay: Option<Vec<u32>>,
    pub observer: Option<Box<dyn Observer>>,
    pub chrony: Option<Box<dyn chrony::ChronySim>>,
    pub rt_off: Option<Box<dyn FnMut(i64) -> i64 + Send>>,
    pub procs: Vec<ProcSpec>,
    /// wall-clock watchdog for the whole run
    pub watchdog: std::time::Duration,
}

#[derive(Debug, Clone, Default)]
pub struct RunReport {
    pub steps: u64,
    pub switches: u64,
    pub hash: u64,
    pub sched_fp: u64,
    pub decisions: Vec<u32>,
    pub dkinds: Vec<u8>,
    pub virt_ns: i64,
    pub counters: BTreeMap<&'static str, u64>,
    pub deadlock: bool,
    pub budget_exhausted: bool,
    pub hung: bool,
    pub trace: Vec<Event>,
    pub thread_names: Vec<String>,
    pub panics: Vec<(u32, String)>,
}


// ---------------------------------------------------------------------------------------------
// OS thread pool: simulated threads are run on pooled OS threads so that a run costs no clone()
// ---------------------------------------------------------------------------------------------

type Job = Box<dyn FnOnce() + Send>;

struct PoolWorker {
    tx: std::sync::mpsc::Sender<Job>,
}

static POOL: Mutex<Vec<PoolWorker>> = Mutex::new(Vec::new());

fn pool_run(job: Job) {
    let w = POOL.lock().unwrap_or_else(|e| e.into_inner()).pop();
    let w = match w {
        Some(w) => w,
        None => {
            let (tx, rx) = std::sync::mpsc::channel::<Job>();
            let tx2 = tx.clone();
            std::thread::Builder::new()
                .name("sim-worker".into())
                .stack_size(1024 * 1024)
                .spawn(move || {
                    while let Ok(job) = rx.recv() {
                        job();
                        POOL.lock().unwrap_or_else(|e| e.into_inner()).push(PoolWorker { tx: tx2.clone() });
                    }
                })
                .expect("spawn OS thread");
            PoolWorker { tx }
        }
    };
    w.tx.send(job).expect("pool worker alive");
}

fn sim_thread_main(sh: Arc<Shared>, tid: Tid, f: Box<dyn FnOnce() + Send>) {
    ME.with(|m| *m.borrow_mut() = Some((sh.clone(), tid)));
    {
        let mut s = sh.lock();
        let cv = s.th[tid].cv.clone();
        while s.current != Some(tid) {
            s = cv.wait(s).unwrap_or_else(|e| e.into_inner());
        }
        if s.th[tid].kill {
            s.th[tid].dead = true;
        }
    }
    let dead = sh.lock().th[tid].dead;
    let code = if dead {
        drop(f);
        2
    } else {
        match std::panic::catch_unwind(std::panic::AssertUnwindSafe(f)) {
            Ok(()) => 0,
            Err(p) if p.is::<Killed>() => 2,
            Err(_) => 1,
        }
    };
    sh.finish(tid, code);
    ME.with(|m| *m.borrow_mut() = None);
}

/// Spawn a simulated thread (caller holds the baton or is the controller before start).
pub(crate) fn spawn_sim(sh: &Arc<Shared>, s: &mut State, name: String, pid: u32, role: u8, inc: u32, f: Box<dyn FnOnce() + Send>) -> Tid {
    let tid = s.new_thread(name.clone(), pid, role, inc);
    let sh2 = sh.clone();
    let done = s.done_tx.clone();
    s.jobs_started += 1;
    pool_run(Box::new(move || {
        sim_thread_main(sh2, tid, f);
        let _ = done.send(());
    }));
    tid
}

/// Execute one simulated run to completion.
pub fn run(spec: RunSpec) -> RunReport {
    let mut rng = spec.seed;
    // three streams: schedule/memory decisions use `rng` directly
    let _ = splitmix(&mut rng);
    let (done_tx, done_rx) = std::sync::mpsc::channel::<()>();
    let n_preempts = spec.cfg.preempts.len();
    let mut st = State {
        th: Vec::new(),
        done_tx,
        jobs_started: 0,
        abandoned: 0,
        current: None,
        rng,
        decisions: Vec::new(),
        dkinds: Vec::new(),
        replay: spec.replay,
        rpos: 0,
        now: spec.cfg.start_mono_ns,
        cfg: spec.cfg,
        steps: 0,
        switches: 0,
        hash: 0xcbf29ce484222325,
        sched_fp: 0xcbf29ce484222325,
        mem: mem::Mem::new(),
        observer: spec.observer,
        chrony: spec.chrony,
        rt_off: spec.rt_off,
        counters: BTreeMap::new(),
        trace: Vec::new(),
        all_done: false,
        ending: false,
        deadlock: false,
        budget_exhausted: false,
        next_pid: 1,
        incarnations: BTreeMap::new(),
        proc_counters: BTreeMap::new(),
        next_chan: 1,
        pct_changes: Vec::new(),
        pct_low: 0,
        pct_streak: (usize::MAX, 0),
        script_pos: 0,
        script_used: 0,
        preempt_seen: vec![0; n_preempts],
        forced: None,
        frozen_by: None,
        panics: Vec::new(),
    };
    if let Sched::Pct { depth, est_steps } = st.cfg.sched {
        for _ in 0..depth {
            let c = 1 + st.decide_n(K_CHG, est_steps.max(2)) as u64;
            st.pct_changes.push(c);
        }
    }
    let sh = Arc::new(Shared { m: Mutex::new(st), ctl: Condvar::new() });
    *ENG.lock().unwrap_or_else(|e| e.into_inner()) = Some(sh.clone());
    {
        let mut s = sh.lock();
        for p in spec.procs {
            let pid = s.next_pid;
            s.next_pid += 1;
            let inc = {
                let e = s.incarnations.entry(p.role).or_insert(0);
                *e += 1;
                *e - 1
            };
            spawn_sim(&sh, &mut s, p.name, pid, p.role, inc, p.f);
        }
        match s.pick_next(None) {
            Some(n) => {
                s.current = Some(n);
                s.th[n].cv.notify_one();
            }
            None => s.all_done = true,
        }
    }
    // Watchdog: a run is hung when its step counter has not advanced for `spec.watchdog` of wall
    // time (a thread spinning without touching shared state). Slow progress — e.g. on an
    // oversubscribed machine — is not a hang; the total work of a run is bounded by `max_steps`.
    let mut hung = false;
    {
        let mut last_steps = 0u64;
        let mut last_change = std::time::Instant::now();
        let mut s = sh.lock();
        while !s.all_done {
            if s.steps != last_steps {
                last_steps = s.steps;
                last_change = std::time::Instant::now();
            } else if last_change.elapsed() > spec.watchdog {
                hung = true;
                break;
            }
            let (g, _) = sh.ctl.wait_timeout(s, std::time::Duration::from_millis(500)).unwrap_or_else(|e| e.into_inner());
            s = g;
        }
    }
    let mut rep = RunReport { hung, ..Default::default() };
    if !hung {
        // wait until every simulated thread body has fully returned to the pool
        let (n, gone) = {
            let s = sh.lock();
            (s.jobs_started, s.abandoned)
        };
        if gone > 0 {
            rep.hung = true;
        }
        for _ in 0..n.saturating_sub(gone) {
            if done_rx.recv_timeout(spec.watchdog).is_err() {
                rep.hung = true;
                break;
            }
        }
    }
    *ENG.lock().unwrap_or_else(|e| e.into_inner()) = None;
    let mut s = sh.lock();
    s.observer = None;
    s.chrony = None;
    s.rt_off = None;
    rep.steps = s.steps;
    rep.switches = s.switches;
    rep.hash = s.hash;
    rep.sched_fp = s.sched_fp;
    rep.decisions = std::mem::take(&mut s.decisions);
    rep.dkinds = std::mem::take(&mut s.dkinds);
    rep.virt_ns = s.now - s.cfg.start_mono_ns;
    rep.counters = std::mem::take(&mut s.counters);
    rep.deadlock = s.deadlock;
    rep.budget_exhausted = s.budget_exhausted;
    rep.trace = std::mem::take(&mut s.trace);
    rep.thread_names = s.th.iter().map(|t| t.name.clone()).collect();
    rep.panics = std::mem::take(&mut s.panics);
    s.mem.close_all();
    rep
}

pub(crate) fn with_global<R>(f: impl FnOnce(&Arc<Shared>) -> R) -> Option<R> {
    global().map(|g| f(&g))
}
