//! Virtual `clock_gettime`.

use crate::{EvKind, State, K_CLOCKFAIL, K_LAG, K_LAGMAG};

/// CLOCK_REALTIME at monotonic instant `m`, both in ns.
pub(crate) fn realtime_at(s: &mut State, m: i64) -> i64 {
    match s.rt_off.as_mut() {
        Some(f) => m + f(m),
        None => m,
    }
}

fn to_ts(ns: i64) -> libc::timespec {
    libc::timespec { tv_sec: ns.div_euclid(1_000_000_000) as libc::time_t, tv_nsec: ns.rem_euclid(1_000_000_000) as _ }
}

/// Returns `None` outside the simulation; `Some(Err(errno))` for an injected failure.
pub fn gettime(clock_id: libc::clockid_t) -> Option<Result<libc::timespec, i32>> {
    let (sh, me) = crate::me()?;
    if !crate::yield_point(EvKind::Point, "clock_gettime", clock_id as u64) {
        return None;
    }
    let mut s = sh.lock();
    let frozen = s.frozen_by == Some(me);
    if !frozen && s.cfg.clock_read_cost_ns > 0 {
        s.now += s.cfg.clock_read_cost_ns;
        s.fire_timers();
    }
    let p = if frozen { 0 } else { s.cfg.clock_fail_ppm };
    if s.decide_p(K_CLOCKFAIL, p) {
        s.count("fault.clock_gettime_fail");
        s.log(me, EvKind::ClockFail, "", clock_id as u64, libc::EINVAL as u64, 0);
        return Some(Err(libc::EINVAL));
    }
    let m = s.now;
    let mut src_instant = m;
    let v = match clock_id {
        libc::CLOCK_REALTIME | libc::CLOCK_REALTIME_COARSE => realtime_at(&mut s, m),
        libc::CLOCK_MONOTONIC_COARSE => {
            // cross-CPU lag: the coarse clock's value as of up to `clock_lag_max_ns` earlier
            let mut src = m;
            let p = if frozen { 0 } else { s.cfg.clock_lag_ppm };
            if s.decide_p(K_LAG, p) {
                let steps = 16u32;
                let k = 1 + s.decide_n(K_LAGMAG, steps) as i64;
                let lag = s.cfg.clock_lag_max_ns * k / steps as i64;
                src = m - lag;
                s.count("fault.clock_lag");
            }
            src_instant = src;
            let t = s.cfg.tick_ns.max(1);
            src.div_euclid(t) * t
        }
        _ => m,
    };
    // c = the instant whose clock value was served (differs from `at` for a lagged coarse read)
    s.log(me, EvKind::ClockRead, "", clock_id as u64, v as u64, src_instant as u64);
    Some(Ok(to_ts(v)))
}
