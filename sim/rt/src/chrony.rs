//! Seam for `chrony_candm::blocking_query_uds`: the simulated chronyd.

use crate::EvKind;
use chrony_candm::reply::Reply;
use chrony_candm::request::RequestBody;
use chrony_candm::ClientOptions;

/// The simulated peer. `query` is called at the instant the request is issued and returns the
/// latency (ns) until the call returns; `reply` is called at that later instant and produces the
/// outcome, which must be valid *then*.
pub trait ChronySim: Send {
    fn query(&mut self, now_ns: i64, timeout_ns: i64, tries: u16) -> i64;
    fn reply(&mut self, now_ns: i64) -> std::io::Result<Reply>;
}

pub fn blocking_query_uds(_request_body: RequestBody, options: ClientOptions) -> std::io::Result<Reply> {
    let dead = || std::io::Error::new(std::io::ErrorKind::Other, "process is gone");
    let Some((sh, me)) = crate::me() else { return Err(dead()) };
    if !crate::yield_point(EvKind::ChronyQuery, "", 0) {
        return Err(dead());
    }
    let (mut h, now) = {
        let mut s = sh.lock();
        (s.chrony.take(), s.now)
    };
    let lat = match h.as_mut() {
        Some(h) => h.query(now, options.timeout.as_nanos() as i64, options.n_tries),
        None => 0,
    };
    sh.lock().chrony = h;
    if lat > 0 {
        let wake = now + lat;
        sh.block(me, Some(wake));
    }
    if !crate::yield_point(EvKind::Point, "chrony_reply", 0) {
        return Err(dead());
    }
    let (mut h, now) = {
        let mut s = sh.lock();
        (s.chrony.take(), s.now)
    };
    let r = match h.as_mut() {
        Some(h) => h.reply(now),
        None => Err(std::io::Error::new(std::io::ErrorKind::NotFound, "no chronyd")),
    };
    let mut s = sh.lock();
    s.chrony = h;
    s.log(me, EvKind::ChronyReply, "", r.is_ok() as u64, 0, 0);
    r
}
