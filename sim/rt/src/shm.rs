//! Hooks for the shared-memory segment code: mapping registration, record copies, path redirect.

use crate::mem::{self, Access, LOCS, NLOC, REC_LEN, REC_OFF};
use crate::{EvKind, K_PERM};
use std::ffi::{CStr, CString};
use std::path::{Path, PathBuf};

const DEFAULT_SHM_PATH: &str = "/var/run/clockbound/shm";

/// Redirect the hard-coded default segment path into the per-run sandbox.
pub fn redirect_path(p: &Path) -> PathBuf {
    if p == Path::new(DEFAULT_SHM_PATH) {
        if let Some((sh, _)) = crate::me() {
            let s = sh.lock();
            if !s.cfg.sandbox.as_os_str().is_empty() {
                return s.cfg.sandbox.join("run-clockbound").join("shm");
            }
        }
    }
    p.to_path_buf()
}

pub fn redirect_cstr(p: &CStr) -> CString {
    if p.to_bytes() == DEFAULT_SHM_PATH.as_bytes() {
        use std::os::unix::ffi::OsStrExt;
        let r = redirect_path(Path::new(DEFAULT_SHM_PATH));
        return CString::new(r.as_os_str().as_bytes()).unwrap();
    }
    p.to_owned()
}

fn register(base: *const u8, len: usize, fd: i32) {
    let Some((sh, me)) = crate::me() else { return };
    let mut s = sh.lock();
    let pid = s.th[me].pid;
    let b = base as usize;
    // a mapping at a re-used address replaces whatever was registered there
    s.mem.maps.retain(|m| b + len <= m.base || m.base + m.len <= b);
    if s.th[me].dead {
        return;
    }
    let Some(seg) = mem::seg_for_fd(&mut s, fd) else { return };
    s.mem.maps.push(mem::Mapping { base: b, len, seg, pid });
    mem::import_all(&mut s, me);
    mem::sync_thread(&mut s, me);
    s.log(me, EvKind::MapReg, "", seg as u64, len as u64, 0);
}

/// Register a mapping of the file open at `fd`.
pub fn register_mapping_fd(base: *const u8, len: usize, fd: i32) {
    register(base, len, fd);
}

/// Register a mapping of the file at `path` (the writer does not keep its descriptor around).
pub fn register_mapping_path(base: *const u8, len: usize, path: &Path) {
    use std::os::unix::ffi::OsStrExt;
    let Ok(c) = CString::new(path.as_os_str().as_bytes()) else { return };
    let fd = unsafe { libc::open(c.as_ptr(), libc::O_RDONLY | libc::O_CLOEXEC) };
    if fd < 0 {
        return;
    }
    register(base, len, fd);
    unsafe { libc::close(fd) };
    if let Some((sh, _)) = crate::me() {
        // the writer has finished (re-)creating the file
        sh.lock().mem.file_dirty = false;
    }
}

pub fn unregister_mapping(base: *const u8) {
    let Some((sh, me)) = crate::me() else {
        // a thread that is no longer part of the simulation may still unmap
        crate::with_global(|g| g.lock().mem.maps.retain(|m| m.base != base as usize));
        return;
    };
    let mut s = sh.lock();
    s.mem.maps.retain(|m| m.base != base as usize);
    if !s.th[me].dead {
        s.log(me, EvKind::MapUnreg, "", 0, 0, 0);
    }
}

/// The harness changed backing files through ordinary file I/O: import the new contents.
pub fn files_changed() {
    let Some((sh, me)) = crate::me() else { return };
    let mut s = sh.lock();
    mem::import_all(&mut s, me);
}

/// "Propagation complete": every thread's view catches up with the newest stores. After this
/// event a weak-memory execution behaves like a sequentially consistent one until new stores.
pub fn propagate_all() {
    let Some((sh, me)) = crate::me() else { return };
    let mut s = sh.lock();
    let n = s.mem.newest_view();
    for t in s.th.iter_mut() {
        mem::join(&mut t.cur, &n);
    }
    s.log(me, EvKind::Sync, "", 0, 0, 0);
}

fn copy_order(n: usize) -> Vec<usize> {
    let mut order: Vec<usize> = (0..n).collect();
    if let Some((sh, me)) = crate::me() {
        let mut s = sh.lock();
        if s.cfg.field_perm && !s.th[me].dead {
            // factoradic decoding of one decision; 0 = identity
            let mut k = s.decide_n(K_PERM, 40320) as usize;
            let mut pool: Vec<usize> = (0..n).collect();
            order.clear();
            let mut f = 5040; // 7!
            for i in (1..=n).rev() {
                let j = k / f;
                k %= f;
                order.push(pool.remove(j.min(pool.len() - 1)));
                if i > 1 {
                    f /= i - 1;
                }
            }
        }
    }
    order
}

/// Field-by-field simulated copy of the record out of the segment (replaces `read_volatile`).
///
/// # Safety
/// `p` must point to a readable record of `REC_LEN` bytes.
pub unsafe fn read_record<T: Copy>(p: *const T) -> T {
    assert_eq!(std::mem::size_of::<T>(), REC_LEN);
    if mem_lookup(p as usize).is_none() {
        return p.read_volatile();
    }
    let mut out = [0u8; REC_LEN];
    let mut real_done = false;
    for k in copy_order(NLOC - 3) {
        let i = 3 + k;
        let (o, w) = LOCS[i];
        let a = (p as usize) + o - REC_OFF;
        match mem::sim_load(a, None) {
            Access::Value(v) => out[o - REC_OFF..o - REC_OFF + w].copy_from_slice(&v.to_ne_bytes()[..w]),
            Access::Real => {
                if !real_done {
                    // not (or no longer) simulated: plain copy
                    let t = p.read_volatile();
                    std::ptr::copy_nonoverlapping(&t as *const T as *const u8, out.as_mut_ptr(), REC_LEN);
                    real_done = true;
                }
            }
        }
    }
    std::ptr::read_unaligned(out.as_ptr() as *const T)
}

/// Field-by-field simulated copy of a record into the segment (precedes the original
/// `ptr.write(*ceb)`, which then rewrites the same bytes).
///
/// # Safety
/// `p` must point to a writable record of `REC_LEN` bytes.
pub unsafe fn write_record<T: Copy>(p: *mut T, src: &T) {
    assert_eq!(std::mem::size_of::<T>(), REC_LEN);
    if mem_lookup(p as usize).is_none() {
        return;
    }
    let bytes = std::slice::from_raw_parts(src as *const T as *const u8, REC_LEN);
    for k in copy_order(NLOC - 3) {
        let i = 3 + k;
        let (o, w) = LOCS[i];
        let a = (p as usize) + o - REC_OFF;
        let mut v = [0u8; 8];
        v[..w].copy_from_slice(&bytes[o - REC_OFF..o - REC_OFF + w]);
        mem::sim_store(a, u64::from_ne_bytes(v), None);
    }
}

fn mem_lookup(addr: usize) -> Option<()> {
    let (sh, me) = crate::me()?;
    let s = sh.lock();
    if s.th[me].dead {
        return None;
    }
    s.mem.lookup(addr).map(|_| ())
}
