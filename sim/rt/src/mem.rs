//! View-based release/acquire memory model over the locations of ClockBound segments.
//!
//! A location is (segment, index into LOCS). Each location keeps its modification order as a
//! list of messages (value, attached view); each thread keeps `cur`, `acq`, `rel` views.
//! See DESIGN.md §3.3.

use crate::{EvKind, State, Tid, K_STALE, K_STALEIDX};
use std::sync::atomic::Ordering;

pub const NLOC: usize = 11;
/// (offset, width) of each location inside a segment: segsize, version, generation and the
/// eight fields of the record.
pub const LOCS: [(usize, usize); NLOC] = [
    (8, 4),
    (12, 2),
    (14, 2),
    (16, 8),
    (24, 8),
    (32, 8),
    (40, 8),
    (48, 8),
    (56, 4),
    (60, 4),
    (64, 4),
];
pub const LOC_VERSION: usize = 1;
pub const LOC_GEN: usize = 2;
pub const REC_OFF: usize = 16;
pub const REC_LEN: usize = 56;
pub const SEG_BYTES: usize = 72;

pub type View = Vec<u32>;

pub fn join(a: &mut View, b: &View) {
    if a.len() < b.len() {
        a.resize(b.len(), 0);
    }
    for i in 0..b.len() {
        if b[i] > a[i] {
            a[i] = b[i];
        }
    }
}

fn vget(v: &View, i: usize) -> u32 {
    v.get(i).copied().unwrap_or(0)
}

fn vset(v: &mut View, i: usize, x: u32) {
    if v.len() <= i {
        v.resize(i + 1, 0);
    }
    v[i] = x;
}

#[derive(Clone)]
pub struct Msg {
    pub val: u64,
    pub view: View,
}

pub struct Seg {
    pub dev: u64,
    pub ino: u64,
    pub fd: i32,
    /// the engine's own read-only mapping of the file: imports must see what a mapping sees
    /// (including bytes stored beyond EOF into the last page, which `read(2)` would not return)
    pub map: usize,
    pub file_len: u64,
    pub locs: Vec<Vec<Msg>>,
}

pub struct Mapping {
    pub base: usize,
    pub len: usize,
    pub seg: usize,
    pub pid: u32,
}

pub struct Mem {
    pub segs: Vec<Seg>,
    pub maps: Vec<Mapping>,
    pub file_dirty: bool,
    pub sc_view: View,
}

impl Mem {
    pub fn new() -> Mem {
        Mem { segs: Vec::new(), maps: Vec::new(), file_dirty: false, sc_view: Vec::new() }
    }

    pub fn newest_view(&self) -> View {
        let mut v = Vec::with_capacity(self.segs.len() * NLOC);
        for s in &self.segs {
            for l in &s.locs {
                v.push((l.len() - 1) as u32);
            }
        }
        v
    }

    pub fn newest_val(&self, seg: usize, loc: usize) -> u64 {
        self.segs[seg].locs[loc].last().unwrap().val
    }

    pub fn lookup(&self, addr: usize) -> Option<(usize, usize, usize)> {
        for m in &self.maps {
            if addr >= m.base && addr < m.base + m.len {
                let off = addr - m.base;
                return LOCS.iter().position(|&(o, _)| o == off).map(|l| (m.seg, l, off));
            }
        }
        None
    }

    pub fn drop_mappings_of(&mut self, pid: u32) {
        self.maps.retain(|m| m.pid != pid);
    }

    pub fn close_all(&mut self) {
        for s in &mut self.segs {
            if s.map != 0 {
                unsafe { libc::munmap(s.map as *mut _, SEG_BYTES) };
                s.map = 0;
            }
            if s.fd >= 0 {
                unsafe { libc::close(s.fd) };
                s.fd = -1;
            }
        }
        self.maps.clear();
    }
}

fn read_file(fd: i32, map: usize) -> (u64, [u8; SEG_BYTES]) {
    let mut buf = [0u8; SEG_BYTES];
    let mut st: libc::stat = unsafe { std::mem::zeroed() };
    let len = if unsafe { libc::fstat(fd, &mut st) } == 0 { st.st_size as u64 } else { 0 };
    if map != 0 {
        if len > 0 {
            // the first page exists: the whole 72 bytes are readable through the mapping
            unsafe { std::ptr::copy_nonoverlapping(map as *const u8, buf.as_mut_ptr(), SEG_BYTES) };
        }
        return (len, buf);
    }
    let n = unsafe { libc::pread(fd, buf.as_mut_ptr().cast(), SEG_BYTES, 0) };
    if n >= 0 && (n as usize) < SEG_BYTES {
        for b in &mut buf[n as usize..] {
            *b = 0;
        }
    }
    (len, buf)
}

fn field(buf: &[u8; SEG_BYTES], loc: usize) -> u64 {
    let (o, w) = LOCS[loc];
    let mut v = [0u8; 8];
    v[..w].copy_from_slice(&buf[o..o + w]);
    u64::from_ne_bytes(v)
}

/// Find or create the segment for the file open at `fd`.
pub(crate) fn seg_for_fd(s: &mut State, fd: i32) -> Option<usize> {
    let mut st: libc::stat = unsafe { std::mem::zeroed() };
    if unsafe { libc::fstat(fd, &mut st) } != 0 {
        return None;
    }
    let (dev, ino) = (st.st_dev as u64, st.st_ino as u64);
    if let Some(i) = s.mem.segs.iter().position(|g| g.dev == dev && g.ino == ino && g.fd >= 0) {
        return Some(i);
    }
    let dupfd = unsafe { libc::fcntl(fd, libc::F_DUPFD_CLOEXEC, 100) };
    // the engine's descriptor must be readable whatever mode the original was opened with
    let rfd = {
        let p = format!("/proc/self/fd/{}\0", fd);
        let r = unsafe { libc::open(p.as_ptr().cast(), libc::O_RDONLY | libc::O_CLOEXEC) };
        if r >= 0 {
            if dupfd >= 0 {
                unsafe { libc::close(dupfd) };
            }
            r
        } else {
            dupfd
        }
    };
    let m = unsafe { libc::mmap(std::ptr::null_mut(), SEG_BYTES, libc::PROT_READ, libc::MAP_SHARED, rfd, 0) };
    let map = if m == libc::MAP_FAILED { 0 } else { m as usize };
    let (len, buf) = read_file(rfd, map);
    let mut locs = Vec::with_capacity(NLOC);
    for l in 0..NLOC {
        locs.push(vec![Msg { val: field(&buf, l), view: Vec::new() }]);
    }
    s.mem.segs.push(Seg { dev, ino, fd: rfd, map, file_len: len, locs });
    Some(s.mem.segs.len() - 1)
}

/// Import changes made to backing files through file I/O (wipe) as sequentially consistent
/// stores: every location whose file content differs from the coherence-newest value gets a
/// new message whose view is the newest view of everything.
pub(crate) fn import_all(s: &mut State, by: Tid) {
    for g in 0..s.mem.segs.len() {
        if s.mem.segs[g].fd < 0 {
            continue;
        }
        let (len, buf) = read_file(s.mem.segs[g].fd, s.mem.segs[g].map);
        s.mem.segs[g].file_len = len;
        if len == 0 {
            continue;
        }
        for l in 0..NLOC {
            let v = field(&buf, l);
            if s.mem.segs[g].locs[l].last().unwrap().val != v {
                let mut view = s.mem.newest_view();
                let i = g * NLOC + l;
                view[i] += 1;
                s.mem.segs[g].locs[l].push(Msg { val: v, view });
                s.log(by, EvKind::Import, "", ((g as u64) << 8) | l as u64, v, 0);
            }
        }
    }
    // the importing thread made system calls: it is up to date
    let n = s.mem.newest_view();
    join(&mut s.th[by].cur, &n);
}

pub(crate) fn sync_thread(s: &mut State, t: Tid) {
    let n = s.mem.newest_view();
    join(&mut s.th[t].cur, &n);
}

fn is_acq(o: Ordering) -> bool {
    matches!(o, Ordering::Acquire | Ordering::AcqRel | Ordering::SeqCst)
}
fn is_rel(o: Ordering) -> bool {
    matches!(o, Ordering::Release | Ordering::AcqRel | Ordering::SeqCst)
}

pub(crate) enum Access {
    /// not a simulated access: perform the real one
    Real,
    Value(u64),
}

/// Simulated load. `ord = None` means a plain (non-atomic / volatile) access, treated as relaxed.
pub(crate) fn sim_load(addr: usize, ord: Option<Ordering>) -> Access {
    let Some((sh, me)) = crate::me() else { return Access::Real };
    let hit = {
        let s = sh.lock();
        if s.th[me].dead {
            return Access::Real;
        }
        s.mem.lookup(addr)
    };
    let Some((seg, loc, _)) = hit else { return Access::Real };
    let tag = ((seg as u64) << 8) | loc as u64;
    if !crate::yield_point(EvKind::Point, crate::TAG_LOAD, tag) {
        return Access::Real;
    }
    let mut s = sh.lock();
    if s.mem.file_dirty {
        import_all(&mut s, me);
    }
    if s.mem.segs[seg].file_len == 0 {
        // the page is beyond the end of the (truncated) file: SIGBUS in production
        s.log(me, EvKind::Sigbus, "load", tag, 0, 0);
        s.count("probe.sigbus");
        let pid = s.th[me].pid;
        s.kill_process(pid, me);
        crate::check_kill(s, me);
        return Access::Value(0);
    }
    let i = seg * NLOC + loc;
    let lo = vget(&s.th[me].cur, i) as usize;
    let hi = s.mem.segs[seg].locs[loc].len() - 1;
    let mut idx = hi;
    let mut stale = 0u64;
    if s.cfg.weak && hi > lo && s.frozen_by != Some(me) {
        let p = s.cfg.stale_ppm;
        if s.decide_p(K_STALE, p) {
            let dom = ((hi - lo) as u32).min(3);
            let d = 1 + s.decide_n(K_STALEIDX, dom) as usize;
            idx = hi - d;
            stale = 1;
            s.count("fault.stale_load");
        }
    }
    let m = s.mem.segs[seg].locs[loc][idx].clone();
    if !s.cfg.weak {
        // cross-check: without staleness the model's newest value is what real memory holds
        let w = LOCS[loc].1;
        let real = unsafe {
            match w {
                2 => (addr as *const u16).read_volatile() as u64,
                4 => (addr as *const u32).read_volatile() as u64,
                _ => (addr as *const u64).read_volatile(),
            }
        };
        if real != m.val {
            s.count("harness.model_real_mismatch");
        }
    }
    let sc = ord == Some(Ordering::SeqCst);
    {
        let t = &mut s.th[me];
        vset(&mut t.cur, i, idx as u32);
        match ord {
            Some(o) if is_acq(o) => join(&mut t.cur, &m.view),
            _ => join(&mut t.acq, &m.view),
        }
    }
    if sc {
        let scv = s.mem.sc_view.clone();
        join(&mut s.th[me].cur, &scv);
        let c = s.th[me].cur.clone();
        join(&mut s.mem.sc_view, &c);
    }
    s.log(me, EvKind::Load, "", tag, m.val, (idx as u64) | (stale << 32));
    Access::Value(m.val)
}

/// Simulated store; also writes the value to the real mapped memory so that the backing file
/// always holds the coherence-newest value. Returns false if this is not a simulated access.
pub(crate) fn sim_store(addr: usize, val: u64, ord: Option<Ordering>) -> bool {
    let Some((sh, me)) = crate::me() else { return false };
    let hit = {
        let s = sh.lock();
        if s.th[me].dead {
            return false;
        }
        s.mem.lookup(addr)
    };
    let Some((seg, loc, _)) = hit else { return false };
    let tag = ((seg as u64) << 8) | loc as u64;
    if !crate::yield_point(EvKind::Point, crate::TAG_STORE, tag) {
        // killed at this point: the store does not happen
        return true;
    }
    let mut s = sh.lock();
    if s.mem.file_dirty {
        import_all(&mut s, me);
    }
    if s.mem.segs[seg].file_len == 0 {
        s.log(me, EvKind::Sigbus, "store", tag, 0, 0);
        s.count("probe.sigbus");
        let pid = s.th[me].pid;
        s.kill_process(pid, me);
        crate::check_kill(s, me);
        return true;
    }
    let i = seg * NLOC + loc;
    let ts = s.mem.segs[seg].locs[loc].len() as u32;
    let sc = ord == Some(Ordering::SeqCst);
    if sc {
        let scv = s.mem.sc_view.clone();
        join(&mut s.th[me].cur, &scv);
    }
    let view = {
        let t = &mut s.th[me];
        vset(&mut t.cur, i, ts);
        let mut v = match ord {
            Some(o) if is_rel(o) => t.cur.clone(),
            _ => t.rel.clone(),
        };
        vset(&mut v, i, ts);
        v
    };
    if sc {
        let c = s.th[me].cur.clone();
        join(&mut s.mem.sc_view, &c);
    }
    s.mem.segs[seg].locs[loc].push(Msg { val, view });
    // real memory
    let w = LOCS[loc].1;
    unsafe {
        match w {
            2 => (addr as *mut u16).write_volatile(val as u16),
            4 => (addr as *mut u32).write_volatile(val as u32),
            _ => (addr as *mut u64).write_volatile(val),
        }
    }
    s.log(me, EvKind::Store, "", tag, val, ts as u64);
    true
}

pub(crate) fn sim_fence(o: Ordering) -> bool {
    let Some((sh, me)) = crate::me() else { return false };
    if !crate::yield_point(EvKind::Fence, "", o as u64) {
        return false;
    }
    let mut s = sh.lock();
    if is_acq(o) {
        let a = s.th[me].acq.clone();
        join(&mut s.th[me].cur, &a);
    }
    if o == Ordering::SeqCst {
        let scv = s.mem.sc_view.clone();
        join(&mut s.th[me].cur, &scv);
        let c = s.th[me].cur.clone();
        join(&mut s.mem.sc_view, &c);
    }
    if is_rel(o) {
        s.th[me].rel = s.th[me].cur.clone();
    }
    true
}
