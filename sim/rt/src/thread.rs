//! Simulated `std::thread::{spawn, JoinHandle}`.

use crate::{EvKind, St};
use std::sync::{Arc, Mutex};

pub use std::thread::panicking;

pub struct JoinHandle<T> {
    tid: crate::Tid,
    slot: Arc<Mutex<Option<std::thread::Result<T>>>>,
}

pub fn spawn<F, T>(f: F) -> JoinHandle<T>
where
    F: FnOnce() -> T + Send + 'static,
    T: Send + 'static,
{
    let Some((sh, me)) = crate::me() else { panic!("verif_rt::thread::spawn outside a simulated thread") };
    crate::yield_point(EvKind::Point, "spawn", 0);
    let slot: Arc<Mutex<Option<std::thread::Result<T>>>> = Arc::new(Mutex::new(None));
    let slot2 = slot.clone();
    let body: Box<dyn FnOnce() + Send> = Box::new(move || {
        let r = std::panic::catch_unwind(std::panic::AssertUnwindSafe(f));
        let killed = matches!(&r, Err(p) if p.is::<crate::Killed>());
        let panicked = r.is_err();
        *slot2.lock().unwrap_or_else(|e| e.into_inner()) = Some(r);
        if killed {
            std::panic::panic_any(crate::Killed);
        }
        if panicked {
            // keep the finish code of the simulated thread accurate
            std::panic::resume_unwind(Box::new(crate::Injected("worker panicked")));
        }
    });
    let mut s = sh.lock();
    let (pid, role, inc) = (s.th[me].pid, s.th[me].role, s.th[me].incarnation);
    let n = s.th.len();
    let name = format!("{}.t{}", s.th[me].name, n);
    let dead = s.th[me].dead;
    let tid = crate::spawn_sim(&sh, &mut s, name, pid, role, inc, body);
    if dead {
        s.kill_thread(tid);
    }
    s.log(me, EvKind::Spawn, "", tid as u64, 0, 0);
    JoinHandle { tid, slot }
}

impl<T> JoinHandle<T> {
    pub fn join(self) -> std::thread::Result<T> {
        if let Some((sh, me)) = crate::me() {
            crate::yield_point(EvKind::Point, "join", self.tid as u64);
            loop {
                let mut s = sh.lock();
                if s.th[self.tid].st == St::Finished || s.th[me].dead {
                    s.log(me, EvKind::Join, "", self.tid as u64, 0, 0);
                    break;
                }
                s.th[self.tid].joiners.push(me);
                drop(s);
                sh.block(me, None);
            }
        }
        match self.slot.lock().unwrap_or_else(|e| e.into_inner()).take() {
            Some(r) => r,
            None => Err(Box::new(crate::Killed)),
        }
    }

    pub fn is_finished(&self) -> bool {
        match crate::me() {
            Some((sh, _)) => sh.lock().th[self.tid].st == St::Finished,
            None => true,
        }
    }
}

/// Simulated `std::thread::sleep`.
pub fn sleep(d: std::time::Duration) {
    crate::sleep_ns(d.as_nanos().min(i64::MAX as u128) as i64);
}
