//! `HashMap` whose hasher is seeded from the run (so iteration order is explored and replays).

use std::hash::{BuildHasher, Hash, Hasher};
use std::ops::{Deref, DerefMut};

#[derive(Clone)]
pub struct SeededState(u64);

impl Default for SeededState {
    fn default() -> Self {
        let seed = match crate::me() {
            Some((sh, _)) => sh.lock().cfg.hash_seed,
            None => 0,
        };
        SeededState(seed)
    }
}

pub struct SeededHasher(u64);

impl Hasher for SeededHasher {
    fn finish(&self) -> u64 {
        let mut x = self.0;
        crate::splitmix(&mut x)
    }
    fn write(&mut self, bytes: &[u8]) {
        for &b in bytes {
            self.0 = (self.0 ^ b as u64).wrapping_mul(0x100000001b3);
        }
    }
}

impl BuildHasher for SeededState {
    type Hasher = SeededHasher;
    fn build_hasher(&self) -> SeededHasher {
        SeededHasher(self.0 ^ 0xcbf29ce484222325)
    }
}

#[derive(Clone)]
pub struct HashMap<K, V>(std::collections::HashMap<K, V, SeededState>);

impl<K: Eq + Hash, V> HashMap<K, V> {
    pub fn new() -> Self {
        HashMap(std::collections::HashMap::with_hasher(SeededState::default()))
    }
    pub fn with_capacity(n: usize) -> Self {
        HashMap(std::collections::HashMap::with_capacity_and_hasher(n, SeededState::default()))
    }
    pub fn keys(&self) -> std::collections::hash_map::Keys<'_, K, V> {
        self.0.keys()
    }
}

impl<K: Eq + Hash, V> Default for HashMap<K, V> {
    fn default() -> Self {
        Self::new()
    }
}

impl<K, V> Deref for HashMap<K, V> {
    type Target = std::collections::HashMap<K, V, SeededState>;
    fn deref(&self) -> &Self::Target {
        &self.0
    }
}
impl<K, V> DerefMut for HashMap<K, V> {
    fn deref_mut(&mut self) -> &mut Self::Target {
        &mut self.0
    }
}

impl<K: std::fmt::Debug, V: std::fmt::Debug> std::fmt::Debug for HashMap<K, V> {
    fn fmt(&self, f: &mut std::fmt::Formatter<'_>) -> std::fmt::Result {
        self.0.fmt(f)
    }
}
