//! Virtual `Instant` and `SystemTime::now()` (through `VirtTracking`).

use crate::EvKind;
use std::ops::{Add, Deref, Sub};
use std::time::{Duration, SystemTime, SystemTimeError, UNIX_EPOCH};

#[derive(Clone, Copy, Debug, PartialEq, Eq, PartialOrd, Ord, Hash)]
pub struct Instant(i64);

fn dur_ns(d: Duration) -> i64 {
    d.as_nanos().min(i64::MAX as u128) as i64
}

impl Instant {
    pub fn now() -> Instant {
        crate::yield_point(EvKind::Point, "instant_now", 0);
        let n = crate::now_ns();
        if let Some((sh, me)) = crate::me() {
            let mut s = sh.lock();
            if !s.th[me].dead {
                s.log(me, EvKind::ClockRead, "instant", 2000, n as u64, n as u64);
            }
        }
        Instant(n)
    }
    pub fn elapsed(&self) -> Duration {
        Instant::now().duration_since(*self)
    }
    pub fn duration_since(&self, earlier: Instant) -> Duration {
        Duration::from_nanos((self.0 - earlier.0).max(0) as u64)
    }
    pub fn saturating_duration_since(&self, earlier: Instant) -> Duration {
        self.duration_since(earlier)
    }
    pub fn checked_duration_since(&self, earlier: Instant) -> Option<Duration> {
        if self.0 >= earlier.0 {
            Some(Duration::from_nanos((self.0 - earlier.0) as u64))
        } else {
            None
        }
    }
    pub fn checked_sub(&self, d: Duration) -> Option<Instant> {
        // like std on Linux (a timespec since boot), an Instant cannot lie before boot
        self.0.checked_sub(dur_ns(d)).filter(|v| *v >= 0).map(Instant)
    }
    pub fn checked_add(&self, d: Duration) -> Option<Instant> {
        self.0.checked_add(dur_ns(d)).map(Instant)
    }
    pub fn as_virtual_ns(&self) -> i64 {
        self.0
    }
}

impl Add<Duration> for Instant {
    type Output = Instant;
    fn add(self, d: Duration) -> Instant {
        Instant(self.0 + dur_ns(d))
    }
}
impl Sub<Duration> for Instant {
    type Output = Instant;
    fn sub(self, d: Duration) -> Instant {
        Instant(self.0 - dur_ns(d))
    }
}
impl Sub<Instant> for Instant {
    type Output = Duration;
    fn sub(self, o: Instant) -> Duration {
        self.duration_since(o)
    }
}

/// Virtual `SystemTime::now()`: the simulated CLOCK_REALTIME.
pub fn system_now() -> SystemTime {
    crate::yield_point(EvKind::Point, "systemtime_now", 0);
    let Some((sh, me)) = crate::me() else { return SystemTime::now() };
    let mut s = sh.lock();
    let m = s.now;
    let rt = crate::clock::realtime_at(&mut s, m);
    if !s.th[me].dead {
        s.log(me, EvKind::ClockRead, "systemtime", 1000, rt as u64, m as u64);
    }
    if rt >= 0 {
        UNIX_EPOCH + Duration::from_nanos(rt as u64)
    } else {
        UNIX_EPOCH - Duration::from_nanos((-rt) as u64)
    }
}

/// A `SystemTime` whose `elapsed()` is measured against the virtual realtime clock.
#[derive(Clone, Copy, Debug)]
pub struct VirtSystemTime(pub SystemTime);

impl VirtSystemTime {
    pub fn elapsed(&self) -> Result<Duration, SystemTimeError> {
        system_now().duration_since(self.0)
    }
    pub fn duration_since(&self, earlier: SystemTime) -> Result<Duration, SystemTimeError> {
        self.0.duration_since(earlier)
    }
}

/// Wrapper that shadows the `ref_time` field of a tracking report by one whose `elapsed()` is
/// virtual; every other field is reached through `Deref`.
pub struct VirtTracking<T> {
    inner: T,
    pub ref_time: VirtSystemTime,
}

pub trait HasRefTime {
    fn ref_time(&self) -> SystemTime;
}

impl HasRefTime for chrony_candm::reply::Tracking {
    fn ref_time(&self) -> SystemTime {
        self.ref_time
    }
}

impl<T: HasRefTime> VirtTracking<T> {
    pub fn new(inner: T) -> Self {
        let ref_time = VirtSystemTime(inner.ref_time());
        VirtTracking { inner, ref_time }
    }
}

impl<T> Deref for VirtTracking<T> {
    type Target = T;
    fn deref(&self) -> &T {
        &self.inner
    }
}
