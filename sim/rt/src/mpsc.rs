//! Simulated `std::sync::mpsc` (unbounded channel): every operation is a scheduling point,
//! blocking receives park the simulated thread, `recv_timeout` fires on the virtual clock.

use crate::EvKind;
use std::collections::VecDeque;
use std::sync::{Arc, Mutex};
use std::time::Duration;

pub use std::sync::mpsc::{RecvError, RecvTimeoutError, SendError, TryRecvError};

struct Chan<T> {
    q: VecDeque<T>,
    senders: usize,
    rx_alive: bool,
    id: u64,
    rx_waiter: Option<crate::Tid>,
    sent: u64,
    recvd: u64,
}

pub struct Sender<T> {
    c: Arc<Mutex<Chan<T>>>,
}

pub struct Receiver<T> {
    c: Arc<Mutex<Chan<T>>>,
}

pub fn channel<T>() -> (Sender<T>, Receiver<T>) {
    let id = match crate::me() {
        Some((sh, _)) => {
            let mut s = sh.lock();
            s.next_chan += 1;
            s.next_chan - 1
        }
        None => 0,
    };
    let c = Arc::new(Mutex::new(Chan { q: VecDeque::new(), senders: 1, rx_alive: true, id, rx_waiter: None, sent: 0, recvd: 0 }));
    (Sender { c: c.clone() }, Receiver { c })
}

fn lock<T>(c: &Arc<Mutex<Chan<T>>>) -> std::sync::MutexGuard<'_, Chan<T>> {
    c.lock().unwrap_or_else(|e| e.into_inner())
}

fn wake(w: Option<crate::Tid>) {
    if let (Some(w), Some((sh, _))) = (w, crate::me()) {
        sh.lock().make_runnable(w);
    } else if let Some(w) = w {
        crate::with_global(|g| g.lock().make_runnable(w));
    }
}

impl<T> Sender<T> {
    pub fn send(&self, t: T) -> Result<(), SendError<T>> {
        let id = lock(&self.c).id;
        let live = crate::yield_point(EvKind::Point, "send", id);
        if !live && crate::me().is_some() {
            // a dead (killed) process sends nothing
            drop(t);
            return Ok(());
        }
        let mut c = lock(&self.c);
        if !c.rx_alive {
            drop(c);
            if let Some((sh, me)) = crate::me() {
                sh.lock().log(me, EvKind::SendFail, "", id, 0, 0);
            }
            return Err(SendError(t));
        }
        c.q.push_back(t);
        c.sent += 1;
        let seq = c.sent;
        let w = c.rx_waiter.take();
        drop(c);
        wake(w);
        if let Some((sh, me)) = crate::me() {
            sh.lock().log(me, EvKind::Send, "", id, seq, 0);
        }
        Ok(())
    }
}

impl<T> Clone for Sender<T> {
    fn clone(&self) -> Self {
        lock(&self.c).senders += 1;
        Sender { c: self.c.clone() }
    }
}

impl<T> Drop for Sender<T> {
    fn drop(&mut self) {
        let mut c = lock(&self.c);
        c.senders -= 1;
        if c.senders == 0 {
            let w = c.rx_waiter.take();
            drop(c);
            wake(w);
        }
    }
}

impl<T> Drop for Receiver<T> {
    fn drop(&mut self) {
        let q = {
            let mut c = lock(&self.c);
            c.rx_alive = false;
            std::mem::take(&mut c.q)
        };
        drop(q);
    }
}

impl<T> std::fmt::Debug for Sender<T> {
    fn fmt(&self, f: &mut std::fmt::Formatter<'_>) -> std::fmt::Result {
        f.write_str("Sender { .. }")
    }
}
impl<T> std::fmt::Debug for Receiver<T> {
    fn fmt(&self, f: &mut std::fmt::Formatter<'_>) -> std::fmt::Result {
        f.write_str("Receiver { .. }")
    }
}

enum Got<T> {
    Msg(T),
    Disconnected,
    Timeout,
}

impl<T> Receiver<T> {
    fn recv_inner(&self, timeout: Option<Duration>) -> Got<T> {
        let id = lock(&self.c).id;
        let live = crate::yield_point(EvKind::Point, "recv", id);
        let Some((sh, me)) = crate::me() else {
            // outside the simulation: non-blocking semantics only
            let mut c = lock(&self.c);
            return match c.q.pop_front() {
                Some(m) => Got::Msg(m),
                None => Got::Disconnected,
            };
        };
        if !live {
            return Got::Disconnected;
        }
        let deadline = timeout.map(|d| sh.lock().now.saturating_add(d.as_nanos().min(i64::MAX as u128) as i64));
        loop {
            {
                let mut c = lock(&self.c);
                if let Some(m) = c.q.pop_front() {
                    c.recvd += 1;
                    let seq = c.recvd;
                    drop(c);
                    sh.lock().log(me, EvKind::Recv, "", id, seq, 0);
                    return Got::Msg(m);
                }
                if c.senders == 0 {
                    drop(c);
                    sh.lock().log(me, EvKind::RecvDisc, "", id, 0, 0);
                    return Got::Disconnected;
                }
                if let Some(d) = deadline {
                    if sh.lock().now >= d {
                        drop(c);
                        sh.lock().log(me, EvKind::RecvTimeout, "", id, 0, 0);
                        return Got::Timeout;
                    }
                }
                c.rx_waiter = Some(me);
            }
            sh.block(me, deadline);
            lock(&self.c).rx_waiter = None;
            if sh.lock().th[me].dead {
                return Got::Disconnected;
            }
        }
    }

    pub fn recv(&self) -> Result<T, RecvError> {
        match self.recv_inner(None) {
            Got::Msg(m) => Ok(m),
            _ => Err(RecvError),
        }
    }

    pub fn recv_timeout(&self, d: Duration) -> Result<T, RecvTimeoutError> {
        match self.recv_inner(Some(d)) {
            Got::Msg(m) => Ok(m),
            Got::Timeout => Err(RecvTimeoutError::Timeout),
            Got::Disconnected => Err(RecvTimeoutError::Disconnected),
        }
    }

    pub fn try_recv(&self) -> Result<T, TryRecvError> {
        let id = lock(&self.c).id;
        crate::yield_point(EvKind::Point, "try_recv", id);
        let mut c = lock(&self.c);
        match c.q.pop_front() {
            Some(m) => Ok(m),
            None if c.senders == 0 => Err(TryRecvError::Disconnected),
            None => Err(TryRecvError::Empty),
        }
    }
}
