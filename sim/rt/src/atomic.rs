//! Drop-in replacement for the subset of `std::sync::atomic` used by clock-bound-shm.
//! An access whose address lies in a registered mapping of a segment is a simulated access and a
//! scheduling point; any other access (e.g. on the stack copy of the header) is passed through.

pub use std::sync::atomic::Ordering;

use crate::mem::{sim_fence, sim_load, sim_store, Access};

pub fn fence(o: Ordering) {
    if !sim_fence(o) {
        std::sync::atomic::fence(o);
    }
}

pub fn compiler_fence(o: Ordering) {
    std::sync::atomic::compiler_fence(o);
}

macro_rules! shim {
    ($n:ident, $t:ty) => {
        #[repr(transparent)]
        #[derive(Debug, Default)]
        pub struct $n(std::sync::atomic::$n);
        impl $n {
            pub const fn new(v: $t) -> Self {
                $n(std::sync::atomic::$n::new(v))
            }
            pub fn load(&self, o: Ordering) -> $t {
                match sim_load(self as *const _ as usize, Some(o)) {
                    Access::Value(v) => v as $t,
                    Access::Real => self.0.load(o),
                }
            }
            pub fn store(&self, v: $t, o: Ordering) {
                if !sim_store(self as *const _ as usize, v as u64, Some(o)) {
                    self.0.store(v, o)
                }
            }
            pub fn into_inner(self) -> $t {
                self.0.into_inner()
            }
            pub fn get_mut(&mut self) -> &mut $t {
                self.0.get_mut()
            }
            /// Read-modify-write operations are modelled as an acquire load followed by a
            /// release store at one scheduling point pair (sufficient for a single writer).
            pub fn fetch_add(&self, d: $t, o: Ordering) -> $t {
                let old = self.load(o);
                self.store(old.wrapping_add(d), o);
                old
            }
            pub fn swap(&self, v: $t, o: Ordering) -> $t {
                let old = self.load(o);
                self.store(v, o);
                old
            }
            pub fn compare_exchange(&self, cur: $t, new: $t, s: Ordering, f: Ordering) -> Result<$t, $t> {
                let old = self.load(f);
                if old == cur {
                    self.store(new, s);
                    Ok(old)
                } else {
                    Err(old)
                }
            }
        }
    };
}

shim!(AtomicU16, u16);
shim!(AtomicU32, u32);
shim!(AtomicU64, u64);
